#![no_main]
//! C07: any text accepted by the Rust parser goes through parse / reconcile / all six back ends without unwinding.
use libfuzzer_sys::fuzz_target;
use verif::ts::{self, Cfg, Outcome, ALL_LANGS};

fuzz_target!(|data: &[u8]| {
    // libfuzzer-sys aborts in its panic hook; the targets judge unwinds themselves (serde_derive's own algorithm panics on
    // some identifiers, typeshare panics are reported as violations), so install the harness's quiet hook instead
    static HOOK: std::sync::Once = std::sync::Once::new();
    HOOK.call_once(verif::ts::install_panic_hook);
    let Ok(text) = std::str::from_utf8(data) else { return };
    if text.len() > 4096 || syn::parse_file(text).is_err() {
        return;
    }
    // make sure the typeshare fast path (substring filter) is passed
    let src = if text.contains("#[typeshare") { text.to_string() } else { format!("#[typeshare]\n{text}") };
    if syn::parse_file(&src).is_err() {
        return;
    }
    let cfg = Cfg::plain();
    for lang in ALL_LANGS {
        if let Outcome::Panic(msg) = ts::generate(lang, &cfg, &[&src], &[]) {
            eprintln!("C07 VIOLATION ({}): panic: {msg}\n--- input:\n{src}", lang.name());
            std::process::abort();
        }
    }
});
