#![no_main]
//! C13: cfg trees decoded from bytes against the documented --target-os rule.
use arbitrary::{Arbitrary, Unstructured};
use libfuzzer_sys::fuzz_target;
use verif::c13::{judge, observe_batch, LEVELS};
use verif::model::Cfg;

fn cfg(u: &mut Unstructured, depth: usize) -> arbitrary::Result<Cfg> {
    let k = if depth >= 8 { u.int_in_range(0..=2)? } else { u.int_in_range(0..=5)? };
    Ok(match k {
        0 => Cfg::Os(["a", "b", "c", "e"][u.int_in_range(0..=3)?].to_string()),
        1 => Cfg::Feature("f".into()),
        2 => Cfg::Word(["unix", "windows", "test"][u.int_in_range(0..=2)?].to_string()),
        3 => Cfg::Not(vec![cfg(u, depth + 1)?]),
        _ => {
            let n = u.int_in_range(0..=4)?;
            let mut v = vec![];
            for _ in 0..n {
                v.push(cfg(u, depth + 1)?);
            }
            if k == 4 { Cfg::Any(v) } else { Cfg::All(v) }
        }
    })
}

fuzz_target!(|data: &[u8]| {
    // libfuzzer-sys aborts in its panic hook; the targets judge unwinds themselves (serde_derive's own algorithm panics on
    // some identifiers, typeshare panics are reported as violations), so install the harness's quiet hook instead
    static HOOK: std::sync::Once = std::sync::Once::new();
    HOOK.call_once(verif::ts::install_panic_hook);
    let mut u = Unstructured::new(data);
    let Ok(nattr) = u.int_in_range(1..=3usize) else { return };
    let mut attrs = vec![];
    for _ in 0..nattr {
        match cfg(&mut u, 0) {
            Ok(c) => attrs.push(c),
            Err(_) => return,
        }
    }
    let level = LEVELS[u.int_in_range(0..=LEVELS.len() - 1).unwrap_or(1)];
    let tmask = u8::arbitrary(&mut u).unwrap_or(0) & 15;
    let targets: Vec<String> = ["a", "b", "c", "d"].iter().enumerate().filter(|(i, _)| tmask & (1 << i) != 0).map(|(_, s)| s.to_string()).collect();
    let got = observe_batch(std::slice::from_ref(&attrs), level, &targets);
    if let Some(v) = judge(&attrs, level, &targets, got[0]) {
        eprintln!("C13 VIOLATION {}: {}", v.sig, v.detail);
        std::process::abort();
    }
});
