#![no_main]
//! C16: identifier + rule + position decoded from bytes, compared with serde_derive's case.rs (vendored).
use libfuzzer_sys::fuzz_target;
use verif::c16::{judge, observe_batch, valid_ident, Case, Pos, RULES};

fuzz_target!(|data: &[u8]| {
    // libfuzzer-sys aborts in its panic hook; the targets judge unwinds themselves (serde_derive's own algorithm panics on
    // some identifiers, typeshare panics are reported as violations), so install the harness's quiet hook instead
    static HOOK: std::sync::Once = std::sync::Once::new();
    HOOK.call_once(verif::ts::install_panic_hook);
    if data.len() < 3 {
        return;
    }
    let rule = RULES[(data[0] as usize) % RULES.len()].to_string();
    let pos = [Pos::Field, Pos::Variant, Pos::VariantField, Pos::Field][(data[1] & 3) as usize];
    let layout = data[1] >> 2;
    let Ok(ident) = std::str::from_utf8(&data[2..]) else { return };
    if ident.len() > 40 || !valid_ident(ident) {
        return;
    }
    let c = Case { ident: ident.to_string(), rule, pos, layout };
    let got = observe_batch(std::slice::from_ref(&c));
    if let Some(v) = judge(&c, &got[0]) {
        // the recorded field-position finding (legacy conversion of non-conventional identifiers) is tolerated
        if v.sig.ends_with("legacy-conversion-of-nonconventional-ident") {
            return;
        }
        eprintln!("C16 VIOLATION {}: {}", v.sig, v.detail);
        std::process::abort();
    }
});
