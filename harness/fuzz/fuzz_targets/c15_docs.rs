#![no_main]
//! C15: arbitrary doc text on a type and a field; every sentinel must stay inside a comment of the five tokenised languages.
use libfuzzer_sys::fuzz_target;
use verif::lex;
use verif::ts::{self, Cfg, Lang, Outcome};

const LANGS: [Lang; 5] = [Lang::TypeScript, Lang::Kotlin, Lang::Swift, Lang::Scala, Lang::Go];

fuzz_target!(|data: &[u8]| {
    // libfuzzer-sys aborts in its panic hook; the targets judge unwinds themselves (serde_derive's own algorithm panics on
    // some identifiers, typeshare panics are reported as violations), so install the harness's quiet hook instead
    static HOOK: std::sync::Once = std::sync::Once::new();
    HOOK.call_once(verif::ts::install_panic_hook);
    let text = String::from_utf8_lossy(data);
    if text.len() > 300 || text.contains("ZQ17X") {
        return;
    }
    // sentinel after every line of the fuzzed text, so that a piece escaping the comment is noticed
    let doc: String = text.split('\n').map(|l| format!("{l} ZQ17X ")).collect::<Vec<_>>().join("\n");
    let src = format!("#[typeshare]\n#[doc = {doc:?}]\npub struct DocFuzz {{\n    #[doc = {doc:?}]\n    pub field_one: String,\n}}\n#[typeshare]\n#[doc = {doc:?}]\n#[serde(tag = \"t\", content = \"c\")]\npub enum DocEnum {{\n    #[doc = {doc:?}]\n    A(String),\n}}\n");
    if syn::parse_file(&src).is_err() {
        return;
    }
    let cfg = Cfg::plain();
    for lang in LANGS {
        let Outcome::Ok(out) = ts::generate(lang, &cfg, &[&src], &[]) else { continue };
        let toks = match lex::lex(lang, &out) {
            Ok(t) => t,
            Err(e) => {
                eprintln!("C15 VIOLATION ({}): output does not tokenise: {} (line {})\n--- doc: {doc:?}\n--- output:\n{out}", lang.name(), e.what, e.line);
                std::process::abort();
            }
        };
        let spans: Vec<(usize, usize)> = toks.iter().filter(|t| t.is_comment()).map(|t| (t.start, t.end)).collect();
        for (i, _) in out.match_indices("ZQ17X") {
            if !spans.iter().any(|(s, e)| i >= *s && i < *e) {
                eprintln!("C15 VIOLATION ({}): doc text outside a comment at byte {i}\n--- doc: {doc:?}\n--- output:\n{out}", lang.name());
                std::process::abort();
            }
        }
    }
});
