//! C12, real-binary family: multi-file Swift — `CodableVoid` used in any generated file must be defined in that file or in
//! the shared Codable.swift of the output folder.
use crate::cli;
use crate::common::*;
use crate::model::*;
use crate::ts::{Cfg, Lang};
use crate::ws::{self, Workspace};
use proptest::prelude::*;
use serde::{Deserialize, Serialize};
use serde_json::json;
use std::time::Duration;

#[derive(Clone, Debug, Serialize, Deserialize)]
pub struct Case {
    pub ws: Workspace,
    /// which files get a `()`-using item
    pub unit_in: Vec<bool>,
    /// a stale Codable.swift from an earlier run is present
    pub stale_codable: bool,
    pub position: u8,
    /// case of the Python folder-mode family
    #[serde(default)]
    pub python: bool,
}

fn unit_item(k: usize, position: u8) -> Item {
    let unit = Ty::Prim(Prim::Unit);
    let ty = match position % 5 {
        0 => unit,
        1 => Ty::Vec(Box::new(unit)),
        2 => Ty::Opt(Box::new(Ty::Map(Box::new(Ty::Prim(Prim::String)), Box::new(unit)))),
        3 => Ty::Array(Box::new(Ty::Vec(Box::new(unit))), 2),
        _ => Ty::Wrap(Wrapper::Box, Box::new(unit)),
    };
    match position % 3 {
        0 => Item::new(&format!("UsesUnit{k}"), Kind::Struct { shape: Shape::Named(vec![Field::new("nothing", ty)]), rename_all: None }),
        1 => Item::new(&format!("UsesUnit{k}"), Kind::Alias { ty }),
        _ => {
            let mut v = Variant::unit("Empty");
            v.payload = Payload::Newtype(ty);
            Item::new(&format!("UsesUnit{k}"), Kind::Enum { variants: vec![v, Variant::unit("Other")], rename_all: None, tag: Some("t".into()), content: Some("c".into()) })
        }
    }
}

pub struct C12Cli;
impl SubCheck for C12Cli {
    type Case = Case;
    fn name(&self) -> &'static str {
        "c12-cli-swift"
    }
    fn strategy(&self, _tier: Tier) -> BoxedStrategy<Case> {
        (ws::cli_items(2, 6), ws::slots(2..=4, 2..=5), proptest::collection::vec(0usize..5, 8), proptest::collection::vec(prop_oneof![2 => Just(false), 1 => Just(true)], 5), any::<bool>(), any::<u8>())
            .prop_map(|(items, slots, assign, unit_in, stale_codable, position)| {
                let items: Vec<Item> = items.into_iter().filter(|i| !matches!(i.kind, Kind::Const { .. })).collect();
                Case { ws: ws::distribute(items, &slots, &assign), unit_in, stale_codable, position, python: false }
            })
            .boxed()
    }
    fn eval(&self, run: &Run, c: &Case, w: &mut Worker, counting: bool) -> Vec<Violation> {
        let mut out = vec![];
        let mut wsx = c.ws.clone();
        // no `()` from the random items: only the planted ones
        for f in wsx.files.iter_mut() {
            f.items.retain(|i| {
                let mut has_unit = false;
                crate::c01_05::for_all_types(std::slice::from_ref(i), &mut |t| {
                    if t.contains(&|x| matches!(x, Ty::Prim(Prim::Unit))) {
                        has_unit = true;
                    }
                });
                !has_unit
            });
        }
        for (k, f) in wsx.files.iter_mut().enumerate() {
            if c.unit_in.get(k).copied().unwrap_or(false) {
                f.items.push(unit_item(k, c.position.wrapping_add(k as u8)));
            }
        }
        wsx.files.retain(|f| !f.items.is_empty());
        if wsx.files.is_empty() {
            return out;
        }
        let root = cli::fresh_dir(&w.scratch, "c12");
        let tree = root.join("tree");
        cli::write_tree(&tree, &wsx.tree());
        let outd = root.join("out");
        std::fs::create_dir_all(&outd).unwrap();
        if c.stale_codable {
            std::fs::write(outd.join("Codable.swift"), "// stale\n").unwrap();
        }
        let cfg = Cfg::plain();
        let mut args = cli::lang_args(Lang::Swift, &cfg);
        args.extend(["-d".into(), outd.to_string_lossy().into_owned(), tree.to_string_lossy().into_owned()]);
        let r = cli::run(&args, &root, &[], Duration::from_secs(20));
        let crates_with_unit: Vec<String> = wsx.files.iter().filter(|f| f.items.iter().any(|i| i.name.starts_with("UsesUnit"))).map(|f| Workspace::crate_name_of(&f.crate_dir)).collect();
        let all_crates = wsx.crates();
        let last_crate = all_crates.iter().map(|c| Workspace::crate_name_of(c)).max().unwrap_or_default();
        let only_non_last = !crates_with_unit.is_empty() && !crates_with_unit.contains(&last_crate);
        if counting {
            run.label(&format!("c12cli/unit-crates={}/{}", crates_with_unit.len().min(3), if only_non_last { "not-in-last-crate" } else { "any" }));
            if all_crates.len() >= 2 && !crates_with_unit.is_empty() {
                run.nontrivial(hash_of(&(serde_json::to_string(&wsx).unwrap_or_default(), c.stale_codable)));
            }
        }
        if !r.ok() {
            if counting {
                run.label(&format!("c12cli/not-generated/exit={:?}", r.code));
            }
            let _ = std::fs::remove_dir_all(&root);
            return out;
        }
        let files = cli::read_tree(&outd);
        let shared = files.iter().find(|(n, _)| n == "Codable.swift").map(|(_, b)| String::from_utf8_lossy(b).into_owned()).unwrap_or_default();
        let shared_defines = shared.contains("struct CodableVoid");
        for (name, bytes) in &files {
            if name == "Codable.swift" {
                continue;
            }
            let text = String::from_utf8_lossy(bytes);
            let uses = text.contains("CodableVoid");
            let defines_here = text.contains("struct CodableVoid");
            if uses && !defines_here && !shared_defines {
                out.push(Violation::new(
                    format!("swift-folder/CodableVoid-undefined/{}{}", if only_non_last { "unit-only-in-non-last-crate" } else { "other" }, if c.stale_codable { "/stale-Codable.swift-present" } else { "" }),
                    format!("swift folder mode: `{name}` uses CodableVoid but neither it nor Codable.swift defines it (files: {:?})", files.iter().map(|x| &x.0).collect::<Vec<_>>()),
                ));
            }
        }
        let _ = std::fs::remove_dir_all(&root);
        out
    }
    fn render(&self, c: &Case) -> serde_json::Value {
        json!({"unit_in": c.unit_in, "stale_codable": c.stale_codable, "files": c.ws.tree().iter().map(|(p, t)| json!({"path": p, "content": String::from_utf8_lossy(t)})).collect::<Vec<_>>()})
    }
}

/// Python folder mode: one module per crate, written one after the other by the same back-end instance. Every module has
/// to import or define the helper names it uses itself - whatever an earlier module needed.
pub struct C12CliPy;
impl SubCheck for C12CliPy {
    type Case = Case;
    fn name(&self) -> &'static str {
        "c12-cli-python"
    }
    fn strategy(&self, tier: Tier) -> BoxedStrategy<Case> {
        C12Cli
            .strategy(tier)
            .prop_map(|mut c| {
                c.python = true;
                c
            })
            .boxed()
    }
    fn eval(&self, run: &Run, c: &Case, w: &mut Worker, counting: bool) -> Vec<Violation> {
        let mut out = vec![];
        let mut wsx = c.ws.clone();
        // `unit_in` selects the crates that get a datetime-carrying item (and, by position, an Optional / aliased field)
        for (k, f) in wsx.files.iter_mut().enumerate() {
            if c.unit_in.get(k).copied().unwrap_or(false) {
                let mut fields = vec![Field::new("stamped_at", Ty::DateTime)];
                if (c.position as usize + k) % 2 == 0 {
                    fields.push(Field::new("maybe_later", Ty::Opt(Box::new(Ty::DateTime))));
                }
                f.items.push(Item::new(&format!("Stamped{k}"), Kind::Struct { shape: Shape::Named(fields), rename_all: None }));
            }
        }
        wsx.files.retain(|f| !f.items.is_empty());
        if wsx.files.is_empty() {
            return out;
        }
        let root = cli::fresh_dir(&w.scratch, "c12py");
        let tree = root.join("tree");
        cli::write_tree(&tree, &wsx.tree());
        let outd = root.join("out");
        std::fs::create_dir_all(&outd).unwrap();
        let mut args = cli::lang_args(Lang::Python, &Cfg::plain());
        args.extend(["-d".into(), outd.to_string_lossy().into_owned(), tree.to_string_lossy().into_owned()]);
        let r = cli::run(&args, &root, &[], Duration::from_secs(20));
        let with_dt: Vec<String> = wsx.files.iter().filter(|f| f.items.iter().any(|i| i.name.starts_with("Stamped"))).map(|f| Workspace::crate_name_of(&f.crate_dir)).collect();
        let crates = wsx.crates();
        if counting {
            run.label(&format!("c12py/crates={}/with-datetime={}", crates.len().min(4), with_dt.len().min(3)));
            if crates.len() >= 2 && !with_dt.is_empty() && with_dt.len() < crates.len() {
                run.nontrivial(hash_of(&(serde_json::to_string(&wsx).unwrap_or_default(),)));
            }
        }
        if !r.ok() {
            if counting {
                run.label(&format!("c12py/not-generated/exit={:?}", r.code));
            }
            let _ = std::fs::remove_dir_all(&root);
            return out;
        }
        let generic_names: Vec<String> = wsx.all_items().iter().flat_map(|i| i.generics.iter().cloned()).collect();
        let gref: Vec<&String> = generic_names.iter().collect();
        for (name, bytes) in cli::read_tree(&outd) {
            if !name.ends_with(".py") {
                continue;
            }
            let text = String::from_utf8_lossy(&bytes).into_owned();
            let Ok(obs) = crate::observe::observe(Lang::Python, &text, w, false) else {
                if counting {
                    run.label("c12py/unobservable");
                }
                continue;
            };
            let Some(py) = &obs.py else { continue };
            let stem = name.trim_end_matches(".py").to_string();
            let own_dt = with_dt.iter().any(|c| crate::prog::norm(c) == crate::prog::norm(&stem));
            for (n, pos) in crate::c09_12::python_missing_helpers(&py.raw, &obs.file, &gref) {
                out.push(Violation::new(
                    format!("python-folder/name-not-imported-or-defined/{n}/{pos}/{}", if own_dt { "module-uses-datetime-itself" } else { "module-without-datetime-after-one-with" }),
                    format!("python folder mode: `{name}` uses `{n}` ({pos}) but neither imports nor defines it (modules: {:?}, with datetime: {:?})", crates, with_dt),
                ));
            }
        }
        let _ = std::fs::remove_dir_all(&root);
        out.sort_by(|a, b| a.sig.cmp(&b.sig));
        out.dedup_by(|a, b| a.sig == b.sig);
        out
    }
    fn render(&self, c: &Case) -> serde_json::Value {
        json!({"python_folder_mode": true, "unit_in": c.unit_in, "files": c.ws.tree().iter().map(|(p, t)| json!({"path": p, "content": String::from_utf8_lossy(t)})).collect::<Vec<_>>()})
    }
}

pub fn run_cli_family(run: &Run) {
    if !cli::bin_available() {
        run.inconclusive("typeshare binary not built");
        return;
    }
    replay_regress(run, &C12Cli);
    search(run, &C12Cli, run.tier.pick(300, 3000));
    replay_regress(run, &C12CliPy);
    search(run, &C12CliPy, run.tier.pick(200, 2000));
}

pub fn replay(run: &Run, case: &serde_json::Value) -> Result<Vec<Violation>, String> {
    if case.get("python").and_then(|p| p.as_bool()) == Some(true) {
        return replay_case(run, &C12CliPy, case);
    }
    replay_case(run, &C12Cli, case)
}
