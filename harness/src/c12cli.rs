//! C12, real-binary family: multi-file Swift — `CodableVoid` used in any generated file must be defined in that file or in
//! the shared Codable.swift of the output folder.
use crate::cli;
use crate::common::*;
use crate::model::*;
use crate::ts::{Cfg, Lang};
use crate::ws::{self, Workspace};
use proptest::prelude::*;
use serde::{Deserialize, Serialize};
use serde_json::json;
use std::time::Duration;

#[derive(Clone, Debug, Serialize, Deserialize)]
pub struct Case {
    pub ws: Workspace,
    /// which files get a `()`-using item
    pub unit_in: Vec<bool>,
    /// a stale Codable.swift from an earlier run is present
    pub stale_codable: bool,
    pub position: u8,
}

fn unit_item(k: usize, position: u8) -> Item {
    let unit = Ty::Prim(Prim::Unit);
    let ty = match position % 5 {
        0 => unit,
        1 => Ty::Vec(Box::new(unit)),
        2 => Ty::Opt(Box::new(Ty::Map(Box::new(Ty::Prim(Prim::String)), Box::new(unit)))),
        3 => Ty::Array(Box::new(Ty::Vec(Box::new(unit))), 2),
        _ => Ty::Wrap(Wrapper::Box, Box::new(unit)),
    };
    match position % 3 {
        0 => Item::new(&format!("UsesUnit{k}"), Kind::Struct { shape: Shape::Named(vec![Field::new("nothing", ty)]), rename_all: None }),
        1 => Item::new(&format!("UsesUnit{k}"), Kind::Alias { ty }),
        _ => {
            let mut v = Variant::unit("Empty");
            v.payload = Payload::Newtype(ty);
            Item::new(&format!("UsesUnit{k}"), Kind::Enum { variants: vec![v, Variant::unit("Other")], rename_all: None, tag: Some("t".into()), content: Some("c".into()) })
        }
    }
}

pub struct C12Cli;
impl SubCheck for C12Cli {
    type Case = Case;
    fn name(&self) -> &'static str {
        "c12-cli-swift"
    }
    fn strategy(&self, _tier: Tier) -> BoxedStrategy<Case> {
        (ws::cli_items(2, 6), ws::slots(2..=4, 2..=5), proptest::collection::vec(0usize..5, 8), proptest::collection::vec(prop_oneof![2 => Just(false), 1 => Just(true)], 5), any::<bool>(), any::<u8>())
            .prop_map(|(items, slots, assign, unit_in, stale_codable, position)| {
                let items: Vec<Item> = items.into_iter().filter(|i| !matches!(i.kind, Kind::Const { .. })).collect();
                Case { ws: ws::distribute(items, &slots, &assign), unit_in, stale_codable, position }
            })
            .boxed()
    }
    fn eval(&self, run: &Run, c: &Case, w: &mut Worker, counting: bool) -> Vec<Violation> {
        let mut out = vec![];
        let mut wsx = c.ws.clone();
        // no `()` from the random items: only the planted ones
        for f in wsx.files.iter_mut() {
            f.items.retain(|i| {
                let mut has_unit = false;
                crate::c01_05::for_all_types(std::slice::from_ref(i), &mut |t| {
                    if t.contains(&|x| matches!(x, Ty::Prim(Prim::Unit))) {
                        has_unit = true;
                    }
                });
                !has_unit
            });
        }
        for (k, f) in wsx.files.iter_mut().enumerate() {
            if c.unit_in.get(k).copied().unwrap_or(false) {
                f.items.push(unit_item(k, c.position.wrapping_add(k as u8)));
            }
        }
        wsx.files.retain(|f| !f.items.is_empty());
        if wsx.files.is_empty() {
            return out;
        }
        let root = cli::fresh_dir(&w.scratch, "c12");
        let tree = root.join("tree");
        cli::write_tree(&tree, &wsx.tree());
        let outd = root.join("out");
        std::fs::create_dir_all(&outd).unwrap();
        if c.stale_codable {
            std::fs::write(outd.join("Codable.swift"), "// stale\n").unwrap();
        }
        let cfg = Cfg::plain();
        let mut args = cli::lang_args(Lang::Swift, &cfg);
        args.extend(["-d".into(), outd.to_string_lossy().into_owned(), tree.to_string_lossy().into_owned()]);
        let r = cli::run(&args, &root, &[], Duration::from_secs(20));
        let crates_with_unit: Vec<String> = wsx.files.iter().filter(|f| f.items.iter().any(|i| i.name.starts_with("UsesUnit"))).map(|f| Workspace::crate_name_of(&f.crate_dir)).collect();
        let all_crates = wsx.crates();
        let last_crate = all_crates.iter().map(|c| Workspace::crate_name_of(c)).max().unwrap_or_default();
        let only_non_last = !crates_with_unit.is_empty() && !crates_with_unit.contains(&last_crate);
        if counting {
            run.label(&format!("c12cli/unit-crates={}/{}", crates_with_unit.len().min(3), if only_non_last { "not-in-last-crate" } else { "any" }));
            if all_crates.len() >= 2 && !crates_with_unit.is_empty() {
                run.nontrivial(hash_of(&(serde_json::to_string(&wsx).unwrap_or_default(), c.stale_codable)));
            }
        }
        if !r.ok() {
            if counting {
                run.label(&format!("c12cli/not-generated/exit={:?}", r.code));
            }
            let _ = std::fs::remove_dir_all(&root);
            return out;
        }
        let files = cli::read_tree(&outd);
        let shared = files.iter().find(|(n, _)| n == "Codable.swift").map(|(_, b)| String::from_utf8_lossy(b).into_owned()).unwrap_or_default();
        let shared_defines = shared.contains("struct CodableVoid");
        for (name, bytes) in &files {
            if name == "Codable.swift" {
                continue;
            }
            let text = String::from_utf8_lossy(bytes);
            let uses = text.contains("CodableVoid");
            let defines_here = text.contains("struct CodableVoid");
            if uses && !defines_here && !shared_defines {
                out.push(Violation::new(
                    format!("swift-folder/CodableVoid-undefined/{}{}", if only_non_last { "unit-only-in-non-last-crate" } else { "other" }, if c.stale_codable { "/stale-Codable.swift-present" } else { "" }),
                    format!("swift folder mode: `{name}` uses CodableVoid but neither it nor Codable.swift defines it (files: {:?})", files.iter().map(|x| &x.0).collect::<Vec<_>>()),
                ));
            }
        }
        let _ = std::fs::remove_dir_all(&root);
        out
    }
    fn render(&self, c: &Case) -> serde_json::Value {
        json!({"unit_in": c.unit_in, "stale_codable": c.stale_codable, "files": c.ws.tree().iter().map(|(p, t)| json!({"path": p, "content": String::from_utf8_lossy(t)})).collect::<Vec<_>>()})
    }
}

pub fn run_cli_family(run: &Run) {
    if !cli::bin_available() {
        run.inconclusive("typeshare binary not built");
        return;
    }
    replay_regress(run, &C12Cli);
    search(run, &C12Cli, run.tier.pick(300, 3000));
}

pub fn replay(run: &Run, case: &serde_json::Value) -> Result<Vec<Violation>, String> {
    replay_case(run, &C12Cli, case)
}
