//! C12, real-binary family (Swift folder mode: Codable.swift) — filled in once the CLI runner exists.
use crate::common::*;
pub fn run_cli_family(_run: &Run) {}
