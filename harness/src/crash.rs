//! Crash guard for the in-process checks. A stack overflow (or any other fatal signal) inside typeshare cannot be caught
//! by `catch_unwind`: it would kill the harness and with it the report. Each worker thread therefore publishes the replay
//! file of the case it is evaluating into a pre-allocated buffer; a signal handler (SIGSEGV / SIGBUS / SIGILL / SIGABRT,
//! on the alternate stack std installs for every thread) writes that buffer to disk, prints the report line and exits:
//! exit 1 + VIOLATION for C07 (the property that forbids aborts), exit 2 (inconclusive, pointing at C07) for every other
//! property. Only async-signal-safe calls are made in the handler (open / write / _exit).
use std::cell::Cell;
use std::sync::atomic::{AtomicBool, AtomicPtr, AtomicUsize, Ordering};

const SLOTS: usize = 128;
const CAP: usize = 4 << 20;

static BUFS: [AtomicPtr<u8>; SLOTS] = [const { AtomicPtr::new(std::ptr::null_mut()) }; SLOTS];
static LENS: [AtomicUsize; SLOTS] = [const { AtomicUsize::new(0) }; SLOTS];
static PATHS: [AtomicPtr<u8>; SLOTS] = [const { AtomicPtr::new(std::ptr::null_mut()) }; SLOTS];
static LINE1: AtomicPtr<u8> = AtomicPtr::new(std::ptr::null_mut());
static IS_C07: AtomicBool = AtomicBool::new(false);
static INSTALLED: AtomicBool = AtomicBool::new(false);
static CAPS: [AtomicUsize; SLOTS] = [const { AtomicUsize::new(0) }; SLOTS];
static ONCE: std::sync::Once = std::sync::Once::new();

thread_local! {
    static SLOT: Cell<usize> = const { Cell::new(usize::MAX) };
}

fn leak_cstr(s: String) -> *mut u8 {
    let mut v = s.into_bytes();
    v.push(0);
    Box::leak(v.into_boxed_slice()).as_mut_ptr()
}

unsafe fn cstr_len(p: *const u8) -> usize {
    let mut n = 0;
    while *p.add(n) != 0 {
        n += 1;
    }
    n
}

unsafe fn out(fd: i32, p: *const u8, n: usize) {
    let mut off = 0;
    while off < n {
        let r = libc::write(fd, p.add(off) as *const libc::c_void, n - off);
        if r <= 0 {
            break;
        }
        off += r as usize;
    }
}

extern "C" fn handler(sig: libc::c_int) {
    unsafe {
        let slot = SLOT.try_with(|s| s.get()).unwrap_or(usize::MAX);
        let is_c07 = IS_C07.load(Ordering::Relaxed);
        let line1 = LINE1.load(Ordering::Relaxed);
        let mut wrote = false;
        if slot < SLOTS {
            let buf = BUFS[slot].load(Ordering::Relaxed);
            let len = LENS[slot].load(Ordering::Relaxed);
            let path = PATHS[slot].load(Ordering::Relaxed);
            if !buf.is_null() && !path.is_null() && len > 0 {
                let fd = libc::open(path as *const libc::c_char, libc::O_WRONLY | libc::O_CREAT | libc::O_TRUNC, 0o644);
                if fd >= 0 {
                    out(fd, buf, len);
                    libc::close(fd);
                    wrote = true;
                }
                if !line1.is_null() {
                    // "VIOLATION property=Cxx replay=" or "INCONCLUSIVE property=Cxx ... case="
                    out(1, line1, cstr_len(line1));
                    out(1, path, cstr_len(path));
                    out(1, b"\n".as_ptr(), 1);
                }
            }
        }
        let what: &[u8] = match sig {
            libc::SIGSEGV => b"  | fatal signal SIGSEGV inside the in-process typeshare run (stack overflow or invalid access): the process would have aborted\n",
            libc::SIGBUS => b"  | fatal signal SIGBUS inside the in-process typeshare run\n",
            libc::SIGILL => b"  | fatal signal SIGILL inside the in-process typeshare run\n",
            _ => b"  | abort() inside the in-process typeshare run\n",
        };
        out(1, what.as_ptr(), what.len());
        if !wrote {
            let m = b"  | (no case was being evaluated on the crashing thread: harness defect or crash outside an evaluation)\n";
            out(1, m.as_ptr(), m.len());
            libc::_exit(2);
        }
        libc::_exit(if is_c07 { 1 } else { 2 });
    }
}

/// Install the handlers (idempotent). `prop` decides how a crash is reported.
pub fn install(prop: &str) {
    // every caller returns only after the one-time set-up is complete
    ONCE.call_once(|| install_once(prop));
}

fn install_once(prop: &str) {
    IS_C07.store(prop == "C07", Ordering::SeqCst);
    let line = if prop == "C07" {
        format!("VIOLATION property={prop} replay=")
    } else {
        format!("INCONCLUSIVE property={prop}: typeshare crashed the process in-process (a fatal signal is C07's subject, not {prop}'s); case saved at ")
    };
    LINE1.store(leak_cstr(line), Ordering::SeqCst);
    let dir = format!("{}/replays/found/{}", crate::common::VERIF, prop);
    let _ = std::fs::create_dir_all(&dir);
    for k in 0..SLOTS {
        BUFS[k].store(Box::leak(vec![0u8; 4096].into_boxed_slice()).as_mut_ptr(), Ordering::SeqCst);
        CAPS[k].store(4096, Ordering::SeqCst);
        PATHS[k].store(leak_cstr(format!("{dir}/crash-{}-{k}.json", std::process::id())), Ordering::SeqCst);
    }
    unsafe {
        for sig in [libc::SIGSEGV, libc::SIGBUS, libc::SIGILL, libc::SIGABRT] {
            let mut sa: libc::sigaction = std::mem::zeroed();
            sa.sa_sigaction = handler as usize;
            sa.sa_flags = libc::SA_ONSTACK | libc::SA_NODEFER;
            libc::sigemptyset(&mut sa.sa_mask);
            libc::sigaction(sig, &sa, std::ptr::null_mut());
        }
    }
    INSTALLED.store(true, Ordering::SeqCst);
}

/// Publish the replay file of the case this thread is about to evaluate.
pub fn enter(slot: usize, replay_json: &[u8]) {
    if !INSTALLED.load(Ordering::Relaxed) || slot >= SLOTS {
        return;
    }
    SLOT.with(|s| s.set(slot));
    LENS[slot].store(0, Ordering::SeqCst);
    let n = replay_json.len().min(CAP);
    // grow the (leaked) buffer of this slot when needed; a slot is used by one thread at a time
    let cur = BUFS[slot].load(Ordering::SeqCst);
    let cap = CAPS[slot].load(Ordering::SeqCst);
    let buf = if n > cap || cur.is_null() {
        let nb = Box::leak(vec![0u8; n.max(4096).next_power_of_two()].into_boxed_slice());
        let p = nb.as_mut_ptr();
        CAPS[slot].store(nb.len(), Ordering::SeqCst);
        BUFS[slot].store(p, Ordering::SeqCst);
        p
    } else {
        cur
    };
    unsafe { std::ptr::copy_nonoverlapping(replay_json.as_ptr(), buf, n) };
    LENS[slot].store(n, Ordering::SeqCst);
}

pub fn leave(slot: usize) {
    if slot < SLOTS {
        LENS[slot].store(0, Ordering::SeqCst);
    }
}
