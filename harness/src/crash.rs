//! Crash guard for the in-process checks. A stack overflow (or any other fatal signal) inside typeshare cannot be caught
//! by `catch_unwind`: it would kill the harness and with it the report. Each worker thread therefore publishes the replay
//! file of the case it is evaluating into a pre-allocated buffer; a signal handler (SIGSEGV / SIGBUS / SIGILL / SIGABRT,
//! on the alternate stack std installs for every thread) writes that buffer to disk, prints the report line and exits:
//! exit 1 + VIOLATION for C07 (the property that forbids aborts), exit 2 (inconclusive, pointing at C07) for every other
//! property. Only async-signal-safe calls are made in the handler (open / write / _exit).
//! A monitor thread applies the same reporting to a worker that never comes back from one evaluation (see `hang_monitor`).
use std::cell::Cell;
use std::sync::atomic::{AtomicBool, AtomicPtr, AtomicU64, AtomicUsize, Ordering};

const SLOTS: usize = 128;
const CAP: usize = 4 << 20;

static BUFS: [AtomicPtr<u8>; SLOTS] = [const { AtomicPtr::new(std::ptr::null_mut()) }; SLOTS];
static LENS: [AtomicUsize; SLOTS] = [const { AtomicUsize::new(0) }; SLOTS];
static PATHS: [AtomicPtr<u8>; SLOTS] = [const { AtomicPtr::new(std::ptr::null_mut()) }; SLOTS];
static LINE1: AtomicPtr<u8> = AtomicPtr::new(std::ptr::null_mut());
static IS_C07: AtomicBool = AtomicBool::new(false);
static INSTALLED: AtomicBool = AtomicBool::new(false);
static CAPS: [AtomicUsize; SLOTS] = [const { AtomicUsize::new(0) }; SLOTS];
static ONCE: std::sync::Once = std::sync::Once::new();
/// start of the evaluation a slot is busy with, in ms since the guard was installed (0 = idle): read by the hang watchdog
static STARTS: [AtomicU64; SLOTS] = [const { AtomicU64::new(0) }; SLOTS];
static T0: std::sync::OnceLock<std::time::Instant> = std::sync::OnceLock::new();

fn now_ms() -> u64 {
    T0.get_or_init(std::time::Instant::now).elapsed().as_millis() as u64 + 1
}

/// One in-process evaluation normally takes milliseconds (a second with an executed Python module). A worker that stays
/// inside one evaluation for `VERIF_HANG_SECS` (default 120 s) is spinning: the monitor saves its case and ends the run -
/// exit 1 + VIOLATION for C07 (the property that forbids hangs), exit 2 (inconclusive) for every other property.
fn hang_monitor() {
    let limit = std::env::var("VERIF_HANG_SECS").ok().and_then(|v| v.parse::<u64>().ok()).unwrap_or(120) * 1000;
    loop {
        std::thread::sleep(std::time::Duration::from_millis(500));
        let now = now_ms();
        for k in 0..SLOTS {
            let st = STARTS[k].load(Ordering::SeqCst);
            if st == 0 || now.saturating_sub(st) < limit {
                continue;
            }
            let len = LENS[k].load(Ordering::SeqCst);
            let buf = BUFS[k].load(Ordering::SeqCst);
            let path = PATHS[k].load(Ordering::SeqCst);
            if len == 0 || buf.is_null() || path.is_null() || STARTS[k].load(Ordering::SeqCst) != st {
                continue;
            }
            let text = unsafe { String::from_utf8_lossy(std::slice::from_raw_parts(buf, len)).into_owned() };
            let text = text.replace("crash/fatal-signal-in-process", "hang/in-process").replace(
                "typeshare brought the process down with a fatal signal (stack overflow / segfault / abort) while this case was evaluated in-process",
                "the in-process typeshare run of this case did not return within the hang watchdog (it normally takes milliseconds): typeshare spins or dead-locks on it",
            );
            let path = unsafe { String::from_utf8_lossy(std::slice::from_raw_parts(path, cstr_len(path))).into_owned() }.replace("/crash-", "/hang-");
            let _ = std::fs::write(&path, text);
            let is_c07 = IS_C07.load(Ordering::Relaxed);
            let line1 = LINE1.load(Ordering::Relaxed);
            let line1 = if line1.is_null() { String::new() } else { unsafe { String::from_utf8_lossy(std::slice::from_raw_parts(line1, cstr_len(line1))).into_owned() } };
            let line1 = line1.replace("crashed the process in-process (a fatal signal is", "did not return from an in-process run (a hang is");
            use std::io::Write;
            let so = std::io::stdout();
            let mut so = so.lock();
            let _ = writeln!(so, "{line1}{path}");
            let _ = writeln!(so, "  sig=hang/in-process");
            let _ = writeln!(so, "  | the in-process typeshare run did not return within {} s (normal: milliseconds): the command would hang", limit / 1000);
            let _ = so.flush();
            unsafe { libc::_exit(if is_c07 { 1 } else { 2 }) };
        }
    }
}

thread_local! {
    static SLOT: Cell<usize> = const { Cell::new(usize::MAX) };
}

fn leak_cstr(s: String) -> *mut u8 {
    let mut v = s.into_bytes();
    v.push(0);
    Box::leak(v.into_boxed_slice()).as_mut_ptr()
}

unsafe fn cstr_len(p: *const u8) -> usize {
    let mut n = 0;
    while *p.add(n) != 0 {
        n += 1;
    }
    n
}

unsafe fn out(fd: i32, p: *const u8, n: usize) {
    let mut off = 0;
    while off < n {
        let r = libc::write(fd, p.add(off) as *const libc::c_void, n - off);
        if r <= 0 {
            break;
        }
        off += r as usize;
    }
}

extern "C" fn handler(sig: libc::c_int) {
    unsafe {
        let slot = SLOT.try_with(|s| s.get()).unwrap_or(usize::MAX);
        let is_c07 = IS_C07.load(Ordering::Relaxed);
        let line1 = LINE1.load(Ordering::Relaxed);
        let mut wrote = false;
        if slot < SLOTS {
            let buf = BUFS[slot].load(Ordering::Relaxed);
            let len = LENS[slot].load(Ordering::Relaxed);
            let path = PATHS[slot].load(Ordering::Relaxed);
            if !buf.is_null() && !path.is_null() && len > 0 {
                let fd = libc::open(path as *const libc::c_char, libc::O_WRONLY | libc::O_CREAT | libc::O_TRUNC, 0o644);
                if fd >= 0 {
                    out(fd, buf, len);
                    libc::close(fd);
                    wrote = true;
                }
                if !line1.is_null() {
                    // "VIOLATION property=Cxx replay=" or "INCONCLUSIVE property=Cxx ... case="
                    out(1, line1, cstr_len(line1));
                    out(1, path, cstr_len(path));
                    out(1, b"\n".as_ptr(), 1);
                }
            }
        }
        let what: &[u8] = match sig {
            libc::SIGSEGV => b"  | fatal signal SIGSEGV inside the in-process typeshare run (stack overflow or invalid access): the process would have aborted\n",
            libc::SIGBUS => b"  | fatal signal SIGBUS inside the in-process typeshare run\n",
            libc::SIGILL => b"  | fatal signal SIGILL inside the in-process typeshare run\n",
            _ => b"  | abort() inside the in-process typeshare run\n",
        };
        out(1, what.as_ptr(), what.len());
        if !wrote {
            let m = b"  | (no case was being evaluated on the crashing thread: harness defect or crash outside an evaluation)\n";
            out(1, m.as_ptr(), m.len());
            libc::_exit(2);
        }
        libc::_exit(if is_c07 { 1 } else { 2 });
    }
}

/// Install the handlers (idempotent). `prop` decides how a crash is reported.
pub fn install(prop: &str) {
    // every caller returns only after the one-time set-up is complete
    ONCE.call_once(|| install_once(prop));
}

fn install_once(prop: &str) {
    IS_C07.store(prop == "C07", Ordering::SeqCst);
    let line = if prop == "C07" {
        format!("VIOLATION property={prop} replay=")
    } else {
        format!("INCONCLUSIVE property={prop}: typeshare crashed the process in-process (a fatal signal is C07's subject, not {prop}'s); case saved at ")
    };
    LINE1.store(leak_cstr(line), Ordering::SeqCst);
    let dir = format!("{}/replays/found/{}", crate::common::VERIF, prop);
    let _ = std::fs::create_dir_all(&dir);
    for k in 0..SLOTS {
        BUFS[k].store(Box::leak(vec![0u8; 4096].into_boxed_slice()).as_mut_ptr(), Ordering::SeqCst);
        CAPS[k].store(4096, Ordering::SeqCst);
        PATHS[k].store(leak_cstr(format!("{dir}/crash-{}-{k}.json", std::process::id())), Ordering::SeqCst);
    }
    unsafe {
        for sig in [libc::SIGSEGV, libc::SIGBUS, libc::SIGILL, libc::SIGABRT] {
            let mut sa: libc::sigaction = std::mem::zeroed();
            sa.sa_sigaction = handler as usize;
            sa.sa_flags = libc::SA_ONSTACK | libc::SA_NODEFER;
            libc::sigemptyset(&mut sa.sa_mask);
            libc::sigaction(sig, &sa, std::ptr::null_mut());
        }
    }
    INSTALLED.store(true, Ordering::SeqCst);
    let _ = now_ms();
    std::thread::spawn(hang_monitor);
}

/// Publish the replay file of the case this thread is about to evaluate.
pub fn enter(slot: usize, replay_json: &[u8]) {
    if !INSTALLED.load(Ordering::Relaxed) || slot >= SLOTS {
        return;
    }
    SLOT.with(|s| s.set(slot));
    LENS[slot].store(0, Ordering::SeqCst);
    let n = replay_json.len().min(CAP);
    // grow the (leaked) buffer of this slot when needed; a slot is used by one thread at a time
    let cur = BUFS[slot].load(Ordering::SeqCst);
    let cap = CAPS[slot].load(Ordering::SeqCst);
    let buf = if n > cap || cur.is_null() {
        let nb = Box::leak(vec![0u8; n.max(4096).next_power_of_two()].into_boxed_slice());
        let p = nb.as_mut_ptr();
        CAPS[slot].store(nb.len(), Ordering::SeqCst);
        BUFS[slot].store(p, Ordering::SeqCst);
        p
    } else {
        cur
    };
    unsafe { std::ptr::copy_nonoverlapping(replay_json.as_ptr(), buf, n) };
    LENS[slot].store(n, Ordering::SeqCst);
    STARTS[slot].store(now_ms(), Ordering::SeqCst);
}

pub fn leave(slot: usize) {
    if slot < SLOTS {
        STARTS[slot].store(0, Ordering::SeqCst);
        LENS[slot].store(0, Ordering::SeqCst);
    }
}
