//! In-process typeshare runner: exactly the sequence the snapshot tests and the CLI use
//! (parser::parse -> reconcile_aliases -> Language::generate_types), inside catch_unwind.
use serde::{Deserialize, Serialize};
use std::collections::{BTreeMap, HashMap};
use std::panic::{catch_unwind, AssertUnwindSafe};
use typeshare_core::{
    context::{ParseContext, ParseFileContext},
    language::{CrateName, GenericConstraints, Go, Kotlin, Language, Python, Scala, Swift, TypeScript},
    parser::ParsedData,
    reconcile::reconcile_aliases,
};

#[derive(Clone, Copy, Debug, PartialEq, Eq, Hash, PartialOrd, Ord, Serialize, Deserialize)]
pub enum Lang {
    TypeScript,
    Kotlin,
    Swift,
    Scala,
    Go,
    Python,
}
pub const ALL_LANGS: [Lang; 6] = [Lang::TypeScript, Lang::Kotlin, Lang::Swift, Lang::Scala, Lang::Go, Lang::Python];

impl Lang {
    pub fn name(self) -> &'static str {
        match self {
            Lang::TypeScript => "typescript",
            Lang::Kotlin => "kotlin",
            Lang::Swift => "swift",
            Lang::Scala => "scala",
            Lang::Go => "go",
            Lang::Python => "python",
        }
    }
    pub fn short(self) -> &'static str {
        match self {
            Lang::TypeScript => "ts",
            Lang::Kotlin => "kotlin",
            Lang::Swift => "swift",
            Lang::Scala => "scala",
            Lang::Go => "go",
            Lang::Python => "python",
        }
    }
    pub fn ext(self) -> &'static str {
        match self {
            Lang::TypeScript => "ts",
            Lang::Kotlin => "kt",
            Lang::Swift => "swift",
            Lang::Scala => "scala",
            Lang::Go => "go",
            Lang::Python => "py",
        }
    }
    pub fn from_name(s: &str) -> Option<Lang> {
        ALL_LANGS.iter().copied().find(|l| l.name() == s || l.short() == s)
    }
}

/// Back-end configuration (the subset of typeshare.toml / CLI options that affects generated code).
#[derive(Clone, Debug, Default, Serialize, Deserialize, PartialEq)]
pub struct Cfg {
    pub swift_prefix: String,
    pub kotlin_prefix: String,
    pub kotlin_package: String,
    pub scala_package: String,
    pub go_package: String,
    pub type_mappings: BTreeMap<String, String>,
    pub go_acronyms: Vec<String>,
    pub go_no_pointer_slice: bool,
    pub swift_default_decorators: Vec<String>,
    pub swift_default_generic_constraints: Vec<String>,
    pub swift_codablevoid_constraints: Vec<String>,
    pub version_header: bool,
}

impl Cfg {
    pub fn plain() -> Cfg {
        Cfg {
            kotlin_package: "com.example.pkg".into(),
            scala_package: "com.example.pkg".into(),
            go_package: "proto".into(),
            ..Default::default()
        }
    }
    pub fn prefix(&self, lang: Lang) -> &str {
        match lang {
            Lang::Swift => &self.swift_prefix,
            Lang::Kotlin => &self.kotlin_prefix,
            _ => "",
        }
    }
}

pub fn make_lang(lang: Lang, cfg: &Cfg, multi_file: bool) -> Box<dyn Language> {
    let tm: HashMap<String, String> = cfg.type_mappings.iter().map(|(k, v)| (k.clone(), v.clone())).collect();
    match lang {
        Lang::TypeScript => Box::new(TypeScript { type_mappings: tm, no_version_header: !cfg.version_header, ..Default::default() }),
        Lang::Kotlin => Box::new(Kotlin {
            package: cfg.kotlin_package.clone(),
            module_name: String::new(),
            prefix: cfg.kotlin_prefix.clone(),
            type_mappings: tm,
            no_version_header: !cfg.version_header,
        }),
        Lang::Swift => Box::new(Swift {
            prefix: cfg.swift_prefix.clone(),
            type_mappings: tm,
            default_decorators: cfg.swift_default_decorators.clone(),
            default_generic_constraints: GenericConstraints::from_config(cfg.swift_default_generic_constraints.clone()),
            multi_file,
            codablevoid_constraints: cfg.swift_codablevoid_constraints.clone(),
            no_version_header: !cfg.version_header,
            ..Default::default()
        }),
        Lang::Scala => Box::new(Scala {
            package: cfg.scala_package.clone(),
            module_name: String::new(),
            type_mappings: tm,
            no_version_header: !cfg.version_header,
        }),
        Lang::Go => Box::new(Go {
            package: cfg.go_package.clone(),
            type_mappings: tm,
            uppercase_acronyms: cfg.go_acronyms.clone(),
            no_pointer_slice: cfg.go_no_pointer_slice,
            no_version_header: !cfg.version_header,
            ..Default::default()
        }),
        Lang::Python => Box::new(Python { type_mappings: tm, no_version_header: !cfg.version_header, ..Default::default() }),
    }
}

#[derive(Debug, Clone)]
pub enum Outcome {
    /// generated text
    Ok(String),
    /// no annotated item in the input
    Empty,
    /// parse-level errors (syn error or per-item errors collected in ParsedData.errors)
    ParseErr(Vec<String>),
    /// back end returned an io::Error (e.g. unsupported special type)
    GenErr(String),
    /// unwind caught; message
    Panic(String),
}

fn panic_msg(e: Box<dyn std::any::Any + Send>) -> String {
    if let Some(s) = e.downcast_ref::<&str>() {
        s.to_string()
    } else if let Some(s) = e.downcast_ref::<String>() {
        s.clone()
    } else {
        "<non-string panic>".into()
    }
}

thread_local! {
    pub static LAST_PANIC_LOC: std::cell::RefCell<Option<String>> = std::cell::RefCell::new(None);
}

/// Install a panic hook that records the location of the last panic per thread (quietly).
pub fn install_panic_hook() {
    std::panic::set_hook(Box::new(|info| {
        let loc = info.location().map(|l| format!("{}:{}", l.file(), l.line()));
        LAST_PANIC_LOC.with(|c| *c.borrow_mut() = loc);
        if std::env::var("VERIF_PANIC_TRACE").is_ok() {
            eprintln!("panic: {info}");
        }
    }));
}
pub fn take_panic_loc() -> Option<String> {
    LAST_PANIC_LOC.with(|c| c.borrow_mut().take())
}

/// Parse one source text the way the library entry point does (single-file mode).
pub fn parse_src(src: &str, target_os: &[String]) -> Result<Option<ParsedData>, Outcome> {
    let ctx = ParseContext { target_os: target_os.to_vec(), ..Default::default() };
    let r = catch_unwind(AssertUnwindSafe(|| {
        typeshare_core::parser::parse(
            &ctx,
            ParseFileContext {
                source_code: src.to_string(),
                crate_name: "default_crate".into(),
                file_name: "file_name".into(),
                file_path: "input.rs".into(),
            },
        )
    }));
    match r {
        Err(e) => Err(Outcome::Panic(panic_msg(e))),
        Ok(Err(e)) => Err(Outcome::ParseErr(vec![e.to_string()])),
        Ok(Ok(d)) => Ok(d),
    }
}

/// Full single-file pipeline for several source texts merged in the given order (as the CLI collector does).
pub fn generate(lang: Lang, cfg: &Cfg, sources: &[&str], target_os: &[String]) -> Outcome {
    let mut merged: Option<ParsedData> = None;
    for src in sources {
        match parse_src(src, target_os) {
            Err(o) => return o,
            Ok(None) => {}
            Ok(Some(d)) => match merged.as_mut() {
                None => merged = Some(d),
                Some(m) => *m += d,
            },
        }
    }
    let Some(data) = merged else { return Outcome::Empty };
    if !data.errors.is_empty() {
        return Outcome::ParseErr(data.errors.iter().map(|e| e.error.to_string()).collect());
    }
    let all: CrateName = String::new().into();
    let r = catch_unwind(AssertUnwindSafe(|| {
        let mut map = BTreeMap::from_iter([(all.clone(), data)]);
        reconcile_aliases(&mut map);
        let data = map.remove(&all).unwrap();
        let mut out: Vec<u8> = Vec::new();
        let mut l = make_lang(lang, cfg, false);
        match l.generate_types(&mut out, &HashMap::new(), data) {
            Ok(()) => Outcome::Ok(String::from_utf8_lossy(&out).into_owned()),
            Err(e) => Outcome::GenErr(e.to_string()),
        }
    }));
    match r {
        Ok(o) => o,
        Err(e) => Outcome::Panic(panic_msg(e)),
    }
}
