//! run/replay entry points of the fact-based checks.
use crate::c01_05::*;
use crate::common::*;
use serde_json::Value;

const OBS_ASSUMPTION: &str = "facts are recovered from the generated text by the harness observers (tokeniser + declaration parsers calibrated on the repository's 303 snapshot outputs; CPython for Python); an output an observer cannot read is counted as unobservable for this property (its ill-formedness is C10's subject)";
const INPROC_ASSUMPTION: &str = "typeshare is driven in-process through parser::parse -> reconcile_aliases -> Language::generate_types, the same sequence the CLI and the snapshot tests use";

pub fn c01_run(run: &Run) {
    run_check(run, &c01(), "programs of 1-5 structs / tagged enums with struct variants; 1-6 conventionally named fields per container drawn from plain snake_case names, raw identifiers (r#type ..) and target-language keywords; per field none | serde(rename) from a pool and from [A-Za-z][A-Za-z0-9_-]*; container/variant/enum rename_all over the 8 rules, none, or an unknown rule; skip markers; all attribute spellings/orders; 6 languages x prefix/package settings. Oracle: key = rename, else serde_derive's apply_to_field (vendored case.rs) of the identifier without r#, else the identifier; an enum-level rule must not reach variant fields. Observed binding: TS property name / Kotlin @SerialName else val name / Swift CodingKeys raw value else let name / Go json tag / Python Field(alias) else attribute / Scala parameter (only keys without '-'). Non-trivial = key differs from identifier, or identifier is raw/keyword, or container is a struct variant; distinct by (source, config).", &[OBS_ASSUMPTION, INPROC_ASSUMPTION, "the serde naming model is serde_derive 1.0.214's case.rs, vendored verbatim"], 3000, 100_000);
}
pub fn c01_replay(run: &Run, case: &Value) -> Result<Vec<Violation>, String> {
    crate::ts::install_panic_hook();
    crate::factcheck::replay_fact(run, &c01(), case)
}
pub fn c02_run(run: &Run) {
    run_check(run, &c02(), "programs of unit enums and adjacently tagged enums with 1-6 UpperCamelCase variants (unit / newtype / struct mixes, incl. V2, A, Http2Frame, Default, Case), rename_all over the 8 rules or none, per-variant serde(rename), tag/content keys from a pool incl. target keywords, generics, recursion; 6 languages. Oracle: wire name = rename else serde_derive apply_to_variant else identifier at EVERY site where the output spells it (TS enum initialiser / union member; Kotlin @SerialName and constructor argument; Swift CodingKeys or raw value; Go const; Scala serialName; Python <Enum>Types member); tag and content keys equal the attribute strings at every site (TS members, Swift ContainerCodingKeys + decode discriminator + decode/encode arms, Go struct tag + Unmarshal/Marshal anonymous struct tags, Kotlin/Scala content parameter, Python variant classes); exactly one case, one decode arm, one encode arm per variant, all naming the same case. Non-trivial = a rename/rule changes a name, or non-default keys, or >= 2 payload kinds.", &[OBS_ASSUMPTION, INPROC_ASSUMPTION, "Kotlin and Scala outputs carry no tag key (statement): only wire names and the content key are compared there"], 3000, 100_000);
}
pub fn c02_replay(run: &Run, case: &Value) -> Result<Vec<Violation>, String> {
    crate::ts::install_panic_hook();
    crate::factcheck::replay_fact(run, &c02(), case)
}
pub fn c03_run(run: &Run) {
    run_check(run, &c03(), "files of 2-8 items (structs, newtypes, unit structs, unit enums, tagged enums, aliases, consts), each independently annotated or not (un-annotated decoys are never referenced), at module depth 0-3, annotation spelled #[typeshare] / #[typeshare(..)] / #[typeshare::typeshare]; serde(skip) / typeshare(skip) on any subset of fields, variants and struct-variant fields, merged or split, any order; decoy attributes that are not skip (skip_serializing_if, skip_deserializing, skip_serializing, alias, with). Oracle: definitions found = annotated items (+ helper structs of struct variants), nothing named after a decoy, nothing invented; each definition lists exactly the non-skipped members in source order. Non-trivial = a skip marker, decoy attribute, un-annotated item or module depth >= 1.", &[OBS_ASSUMPTION, INPROC_ASSUMPTION, "definitions are matched to items tolerantly (original or serde-renamed name, prefix, case/underscore transformations): which of them a back end uses is C09's subject"], 3000, 60_000);
    crate::c03cli::run_cli_family(run);
}
pub fn c03_replay(run: &Run, case: &Value) -> Result<Vec<Violation>, String> {
    crate::ts::install_panic_hook();
    if case.get("ws").is_some() {
        return crate::c03cli::replay(run, case);
    }
    crate::factcheck::replay_fact(run, &c03(), case)
}
pub fn c04_run(run: &Run) {
    run_check(run, &c04(), "fields whose type is T, Option<T>, Option<Option<T>>, Box<Option<T>>, Option<Box<T>>, Arc<Option<Option<T>>>, &Option<T> (T over primitives, containers to depth 3, user types, generic parameters) x default in {absent, bare serde(default) alone or merged, path form default = \"f\" (decoy)} x decoy attributes, in structs, struct variants, newtype-variant payloads and alias targets; Go with no_pointer_slice on/off. Oracle: optional <=> Option at the top after stripping references/transparent pointers, or bare field-level default; every part of the language's idiom present (TS ?; Kotlin ? and = null; Swift ? on the property and the init parameter; Scala Option[..] and = None; Go * and omitempty (documented exception: Option<Vec> under no_pointer_slice); Python Optional and default=None) and none of them otherwise; TS `| null` iff double option; the type under the marker keeps its shape. Non-trivial = default present, Option under a wrapper, double option, or a non-struct position.", &[OBS_ASSUMPTION, INPROC_ASSUMPTION], 4000, 100_000);
}
pub fn c04_replay(run: &Run, case: &Value) -> Result<Vec<Violation>, String> {
    crate::ts::install_panic_hook();
    crate::factcheck::replay_fact(run, &c04(), case)
}
pub fn c05_run(run: &Run) {
    run_check(run, &c05(), "type expressions to depth 5 over {bool, char, String, &str, i8..i32, u8..u32, I54, U53, f32, f64, (), user types (generic and not), generic parameters} closed under Vec, [T;N], &[T], Option, HashMap, Box/Arc/Rc/Cow/Cell/RefCell/Mutex/RwLock, references and path qualification, used as field, struct-variant field, newtype payload, alias / newtype-struct target and const type; 6 languages; prefix settings; type_mappings tables mapping 0-2 user types and \"Vec<u8>\" (TS/Go/Python). Oracle: structural comparison of the observed type tree with the expected one (sequence, fixed sequence, map, option idiom, generic arguments in order, parameters unprefixed, user types under their prefixed original-or-renamed name, mapped types replaced by exactly the configured name); primitive leaves by a per-language table of (JSON category, value range) that is a statement about the target languages: same category, range of the target contains the range of the Rust type. Non-trivial = depth >= 3, a wrapper/reference/qualified path, a mapping, or a container as generic argument.", &[OBS_ASSUMPTION, INPROC_ASSUMPTION, "TS renders Option transparently below the marker level (documented in the code); nothing is demanded there", "Go `int`/`uint` are only guaranteed 32 bits (language spec)"], 5000, 150_000);
}
pub fn c05_replay(run: &Run, case: &Value) -> Result<Vec<Violation>, String> {
    crate::ts::install_panic_hook();
    crate::factcheck::replay_fact(run, &c05(), case)
}

pub fn c09_run(run: &Run) {
    run_check(run, &crate::c09_12::c09(), "programs of 2-8 mutually referencing items (structs, generic structs, unit enums, tagged enums with newtype and struct variants, aliases, generic aliases, newtype structs); references direct, through Vec/array/slice/Option/HashMap key+value/generic arguments/wrappers, recursive; every subset of items carries serde(rename); Swift/Kotlin prefix in {\"\", OP, X_, K}; Go with and without uppercase_acronyms. Oracle (internal consistency of the output): for every reference in the model, the name spelled at the use site equals the name under which the target's definition was found; includes variant parents (Kotlin `: P()`, Scala `extends P`), helper structs of struct variants at every site that names them (payload, Swift decode type, Go decode arm / accessor / constructor), and generic parameters (spelled exactly as declared). Non-trivial = a referenced item is renamed, or a prefix with a reference, or a struct variant.", &[OBS_ASSUMPTION, INPROC_ASSUMPTION, "which of original / renamed a back end defines a type under is not prescribed; only agreement between definition and use is demanded"], 3000, 80_000);
}
pub fn c09_replay(run: &Run, case: &Value) -> Result<Vec<Violation>, String> {
    crate::ts::install_panic_hook();
    crate::factcheck::replay_fact(run, &crate::c09_12::c09(), case)
}
pub fn c11_run(run: &Run) {
    let rule = "item sets of 2-10 with a random reference graph: an acyclic family (items only refer to items earlier in a hidden order; source order shuffled independently; names random so alphabetical order is independent of the graph) and an unrestricted family (self loops, cycles); every edge placed in a struct field, newtype payload, struct-variant field, alias / newtype target, through Vec / array / slice / Option / HashMap key or value / generic argument / nested combinations; a sub-family with serde-renamed targets; languages TS, Kotlin, Swift, Go, Python. Oracle: (1) every item is defined exactly once (all graphs); (2) acyclic graphs: every definition belonging to A (its helper structs and variant classes included) that mentions B's name comes after B's definition; (3) Python, acyclic: the module executes against the stub pydantic without NameError on a user type. Non-trivial = >= 3 edges, a cycle, or an edge through a container.";
    run_check(run, &crate::c09_12::c11_dag(), rule, &[OBS_ASSUMPTION, INPROC_ASSUMPTION, "Scala is excluded (statement: it does not use the shared ordering)"], 3000, 100_000);
    search(run, &crate::c09_12::c11_cyclic(), run.tier.pick(1500, 50_000));
}
pub fn c11_replay(run: &Run, case: &Value) -> Result<Vec<Violation>, String> {
    crate::ts::install_panic_hook();
    crate::factcheck::replay_fact(run, &crate::c09_12::c11_dag(), case)
}
pub fn c12_run(run: &Run) {
    run_check(run, &crate::c09_12::c12(), "programs in which the trigger types - (), unsigned integers, Option, Vec, HashMap, generic parameters, Vec<u8> mapped to bytes - occur at depth 0-4 and in every position (field, struct-variant field, newtype payload, alias / newtype target, generic argument, const type), alone and combined; 6 languages. Oracle (one direction, as stated): every use of a helper name (Swift CodableVoid; Scala UByte/UShort/UInt/ULong; Python names from typing / pydantic / enum / datetime, TypeVars, custom (de)serialiser functions - found by an AST walk of annotations, bases and values, plus NameError at import; Go package qualifiers) is matched by a definition or import in the same output. Non-trivial = a trigger at depth >= 2 or >= 2 triggers.", &[OBS_ASSUMPTION, INPROC_ASSUMPTION, "unused imports are not flagged; generated TypeScript never uses the names of its Reviver/Replacer footer, so no obligation arises there"], 3000, 80_000);
    crate::c12cli::run_cli_family(run);
}
pub fn c12_replay(run: &Run, case: &Value) -> Result<Vec<Violation>, String> {
    crate::ts::install_panic_hook();
    if case.get("ws").is_some() {
        return crate::c12cli::replay(run, case);
    }
    crate::factcheck::replay_fact(run, &crate::c09_12::c12(), case)
}
