//! Observed facts recovered from generated foreign code: a common IR for six back ends.
use crate::lex::{Tok, TokKind};
use serde::Serialize;

/// Canonical type tree shared by all languages.
#[derive(Clone, Debug, PartialEq, Eq, Serialize)]
pub enum OTy {
    Seq(Box<OTy>),
    FixedSeq(Box<OTy>, usize),
    Map(Box<OTy>, Box<OTy>),
    Opt(Box<OTy>),
    Ptr(Box<OTy>),
    /// TS `T | null`
    Nullable(Box<OTy>),
    Name { base: String, args: Vec<OTy> },
    /// something this observer does not model (object literal, function type...)
    Other(String),
}
impl OTy {
    pub fn name(s: &str) -> OTy {
        OTy::Name { base: s.to_string(), args: vec![] }
    }
    pub fn walk<'a>(&'a self, f: &mut dyn FnMut(&'a OTy)) {
        f(self);
        match self {
            OTy::Seq(t) | OTy::FixedSeq(t, _) | OTy::Opt(t) | OTy::Ptr(t) | OTy::Nullable(t) => t.walk(f),
            OTy::Map(k, v) => {
                k.walk(f);
                v.walk(f)
            }
            OTy::Name { args, .. } => args.iter().for_each(|a| a.walk(f)),
            OTy::Other(_) => {}
        }
    }
    pub fn names(&self) -> Vec<&str> {
        let mut out = vec![];
        self.walk(&mut |t| {
            if let OTy::Name { base, .. } = t {
                out.push(base.as_str());
            }
        });
        out
    }
    pub fn show(&self) -> String {
        match self {
            OTy::Seq(t) => format!("Seq<{}>", t.show()),
            OTy::FixedSeq(t, n) => format!("FixedSeq<{};{}>", t.show(), n),
            OTy::Map(k, v) => format!("Map<{},{}>", k.show(), v.show()),
            OTy::Opt(t) => format!("Opt<{}>", t.show()),
            OTy::Ptr(t) => format!("Ptr<{}>", t.show()),
            OTy::Nullable(t) => format!("Nullable<{}>", t.show()),
            OTy::Name { base, args } => {
                if args.is_empty() {
                    base.clone()
                } else {
                    format!("{}<{}>", base, args.iter().map(|a| a.show()).collect::<Vec<_>>().join(","))
                }
            }
            OTy::Other(s) => format!("?{s}?"),
        }
    }
}

#[derive(Clone, Debug, Default, Serialize)]
pub struct OField {
    /// identifier in the target language (back-ticks removed)
    pub ident: String,
    /// the JSON key the target-language codec would use (explicit binding if present, else the identifier)
    pub key: String,
    /// true if the key comes from an explicit binding (quoted property, SerialName, CodingKeys, json tag, alias)
    pub bound: bool,
    pub ty: Option<OTy>,
    pub ty_text: String,
    /// optional marker parts present (language idiom), e.g. ["?"], ["?","= null"], ["*","omitempty"], ["Optional","default=None"]
    pub opt: Vec<String>,
    pub readonly: bool,
    pub line: usize,
    pub escaped: bool,
    /// properties of an inline object type (TS struct variants)
    pub inline: Vec<OField>,
}

#[derive(Clone, Debug, Serialize, PartialEq)]
pub enum OPayload {
    None,
    Ty(OTy),
    Inline(Vec<String>),
}

#[derive(Clone, Debug, Serialize)]
pub struct OCase {
    pub ident: String,
    /// every place the wire name of this case is written: (site, value)
    pub wire: Vec<(String, String)>,
    pub payload: Option<OTy>,
    /// inline fields (TS struct variants)
    pub fields: Vec<OField>,
    pub payload_optional: bool,
    /// every place a tag / content key is written for this case: (site, value)
    pub tag: Vec<(String, String)>,
    pub content: Vec<(String, String)>,
    /// parent type reference (Kotlin `: P<T>()`, Scala `extends P[T]`)
    pub parent: Option<OTy>,
    pub line: usize,
    /// further facts, e.g. ("decode-arms","1")
    pub facts: Vec<(String, String)>,
    pub escaped: bool,
}
impl OCase {
    pub fn new(ident: &str, line: usize) -> OCase {
        OCase { ident: ident.to_string(), wire: vec![], payload: None, fields: vec![], payload_optional: false, tag: vec![], content: vec![], parent: None, line, facts: vec![], escaped: false }
    }
}

#[derive(Clone, Copy, Debug, PartialEq, Eq, Serialize)]
pub enum OKind {
    Struct,
    UnitEnum,
    AlgEnum,
    Alias,
    Const,
    /// back-end helper (e.g. Python `<Enum>Types`, Go `<Enum>Types`, variant classes)
    Helper,
}

#[derive(Clone, Debug, Serialize)]
pub struct ODecl {
    pub kind: OKind,
    pub name: String,
    pub generics: Vec<String>,
    pub fields: Vec<OField>,
    pub cases: Vec<OCase>,
    pub target: Option<OTy>,
    pub target_optional: bool,
    /// enum-level tag / content sites
    pub tag: Vec<(String, String)>,
    pub content: Vec<(String, String)>,
    pub const_value: Option<String>,
    pub const_ty: Option<OTy>,
    /// other type references made by this declaration: (role, type)
    pub refs: Vec<(String, OTy)>,
    pub line: usize,
    /// index among declarations in the file
    pub order: usize,
    pub escaped: bool,
    pub decorators: Vec<String>,
    pub facts: Vec<(String, String)>,
}
impl ODecl {
    pub fn new(kind: OKind, name: &str, line: usize) -> ODecl {
        ODecl {
            kind,
            name: name.to_string(),
            generics: vec![],
            fields: vec![],
            cases: vec![],
            target: None,
            target_optional: false,
            tag: vec![],
            content: vec![],
            const_value: None,
            const_ty: None,
            refs: vec![],
            line,
            order: 0,
            escaped: false,
            decorators: vec![],
            facts: vec![],
        }
    }
    /// every type expression mentioned by this declaration with a role label
    pub fn all_types(&self) -> Vec<(String, &OTy)> {
        let mut out: Vec<(String, &OTy)> = vec![];
        for f in &self.fields {
            if let Some(t) = &f.ty {
                out.push((format!("field:{}", f.ident), t));
            }
        }
        for c in &self.cases {
            if let Some(t) = &c.payload {
                out.push((format!("payload:{}", c.ident), t));
            }
            for f in &c.fields {
                if let Some(t) = &f.ty {
                    out.push((format!("variant-field:{}.{}", c.ident, f.ident), t));
                }
            }
            if let Some(t) = &c.parent {
                out.push((format!("parent:{}", c.ident), t));
            }
        }
        if let Some(t) = &self.target {
            out.push(("alias-target".into(), t));
        }
        if let Some(t) = &self.const_ty {
            out.push(("const-type".into(), t));
        }
        for (r, t) in &self.refs {
            out.push((r.clone(), t));
        }
        out
    }
}

#[derive(Clone, Debug, Default, Serialize)]
pub struct OImport {
    pub module: String,
    pub names: Vec<String>,
}

#[derive(Clone, Debug, Default, Serialize)]
pub struct OFile {
    pub package: Option<String>,
    pub imports: Vec<OImport>,
    pub decls: Vec<ODecl>,
    /// names defined that are not user declarations (Scala `type UByte = Byte`, Swift CodableVoid, TS ReviverFunc, Python TypeVars...)
    pub helper_defs: Vec<String>,
    /// key = alias, value = target (Scala unsigned aliases)
    pub helper_aliases: Vec<(String, String)>,
}
impl OFile {
    pub fn decl(&self, name: &str) -> Option<&ODecl> {
        self.decls.iter().find(|d| d.name == name)
    }
    pub fn finish(mut self) -> OFile {
        for (i, d) in self.decls.iter_mut().enumerate() {
            d.order = i;
        }
        self
    }
}

/// grammar problem found by an observer
#[derive(Clone, Debug)]
pub struct GrammarError {
    pub construct: String,
    pub msg: String,
    pub line: usize,
}
pub type PResult<T> = Result<T, GrammarError>;

/// Token cursor over significant tokens.
pub struct Cur<'a> {
    pub t: &'a [Tok],
    pub i: usize,
    pub ctx: &'static str,
}
impl<'a> Cur<'a> {
    pub fn new(t: &'a [Tok]) -> Cur<'a> {
        Cur { t, i: 0, ctx: "file" }
    }
    pub fn eof(&self) -> bool {
        self.i >= self.t.len()
    }
    pub fn peek(&self) -> Option<&'a Tok> {
        self.t.get(self.i)
    }
    pub fn peek_at(&self, k: usize) -> Option<&'a Tok> {
        self.t.get(self.i + k)
    }
    pub fn line(&self) -> usize {
        self.peek().map(|t| t.line).or_else(|| self.t.last().map(|t| t.line)).unwrap_or(0)
    }
    pub fn err<T>(&self, msg: impl Into<String>) -> PResult<T> {
        let got = self.peek().map(|t| format!("`{}`", t.text)).unwrap_or_else(|| "end of file".into());
        Err(GrammarError { construct: self.ctx.to_string(), msg: format!("{} (got {})", msg.into(), got), line: self.line() })
    }
    pub fn next(&mut self) -> Option<&'a Tok> {
        let t = self.t.get(self.i);
        if t.is_some() {
            self.i += 1;
        }
        t
    }
    pub fn is_p(&self, p: &str) -> bool {
        self.peek().map(|t| t.is_p(p)).unwrap_or(false)
    }
    pub fn is_id(&self, s: &str) -> bool {
        self.peek().map(|t| t.is_id(s)).unwrap_or(false)
    }
    pub fn is_id_at(&self, k: usize, s: &str) -> bool {
        self.peek_at(k).map(|t| t.is_id(s)).unwrap_or(false)
    }
    pub fn is_p_at(&self, k: usize, s: &str) -> bool {
        self.peek_at(k).map(|t| t.is_p(s)).unwrap_or(false)
    }
    pub fn eat_p(&mut self, p: &str) -> bool {
        if self.is_p(p) {
            self.i += 1;
            true
        } else {
            false
        }
    }
    pub fn eat_id(&mut self, s: &str) -> bool {
        if self.is_id(s) {
            self.i += 1;
            true
        } else {
            false
        }
    }
    pub fn expect_p(&mut self, p: &str) -> PResult<()> {
        if self.eat_p(p) {
            Ok(())
        } else {
            self.err(format!("expected `{p}`"))
        }
    }
    pub fn expect_id(&mut self, s: &str) -> PResult<()> {
        if self.eat_id(s) {
            Ok(())
        } else {
            self.err(format!("expected `{s}`"))
        }
    }
    /// any identifier (escaped or not)
    pub fn ident(&mut self) -> PResult<&'a Tok> {
        match self.peek() {
            Some(t) if t.kind == TokKind::Ident => {
                self.i += 1;
                Ok(t)
            }
            _ => self.err("expected an identifier"),
        }
    }
    pub fn string(&mut self) -> PResult<&'a Tok> {
        match self.peek() {
            Some(t) if t.kind == TokKind::Str => {
                self.i += 1;
                Ok(t)
            }
            _ => self.err("expected a string literal"),
        }
    }
    /// the next token starts on a new line (or is the first token / eof)
    pub fn at_line_start(&self) -> bool {
        self.peek().map(|t| t.nl_before || self.i == 0).unwrap_or(true)
    }
    /// skip a balanced group starting at the current opening bracket; returns the tokens inside
    pub fn skip_group(&mut self) -> PResult<&'a [Tok]> {
        let (open, close) = match self.peek() {
            Some(t) if t.is_p("(") => ("(", ")"),
            Some(t) if t.is_p("[") => ("[", "]"),
            Some(t) if t.is_p("{") => ("{", "}"),
            Some(t) if t.is_p("<") => ("<", ">"),
            _ => return self.err("expected an opening bracket"),
        };
        let start = self.i + 1;
        let mut depth = 0usize;
        while let Some(t) = self.next() {
            if t.is_p(open) {
                depth += 1;
            } else if t.is_p(close) {
                depth -= 1;
                if depth == 0 {
                    return Ok(&self.t[start..self.i - 1]);
                }
            }
        }
        self.err(format!("unbalanced `{open}`"))
    }
}
