//! TypeScript observer: the declaration subset typeshare emits, parsed by the language's rules.
use crate::lex::{Tok, TokKind};
use crate::obs::*;

pub fn parse(toks: &[Tok]) -> PResult<OFile> {
    let mut c = Cur::new(toks);
    let mut f = OFile::default();
    while !c.eof() {
        if c.is_id("import") {
            c.ctx = "import";
            c.next();
            c.expect_p("{")?;
            let mut names = vec![];
            while !c.is_p("}") {
                names.push(c.ident()?.text.clone());
                if !c.eat_p(",") {
                    break;
                }
            }
            c.expect_p("}")?;
            c.expect_id("from")?;
            let m = c.string()?.text.clone();
            c.eat_p(";");
            f.imports.push(OImport { module: m, names });
            continue;
        }
        c.ctx = "top-level";
        c.expect_id("export")?;
        if c.eat_id("interface") {
            c.ctx = "interface";
            let name = c.ident()?;
            let mut d = ODecl::new(OKind::Struct, &name.text, name.line);
            d.generics = generics_decl(&mut c)?;
            c.expect_p("{")?;
            d.fields = fields_until_brace(&mut c)?;
            c.expect_p("}")?;
            f.decls.push(d);
        } else if c.eat_id("enum") {
            c.ctx = "enum";
            let name = c.ident()?;
            let mut d = ODecl::new(OKind::UnitEnum, &name.text, name.line);
            d.generics = generics_decl(&mut c)?;
            c.expect_p("{")?;
            while !c.is_p("}") {
                let id = c.ident()?;
                c.expect_p("=")?;
                let v = c.string()?;
                d.cases.push({ let mut __c = OCase::new(&id.text, id.line); __c.wire = vec![("ts.enum-member".into(), v.text.clone())]; __c });
                if !c.eat_p(",") {
                    break;
                }
            }
            c.expect_p("}")?;
            f.decls.push(d);
        } else if c.eat_id("type") {
            c.ctx = "type-alias";
            let name = c.ident()?;
            let mut d = ODecl::new(OKind::Alias, &name.text, name.line);
            d.generics = generics_decl(&mut c)?;
            c.expect_p("=")?;
            let leading_bar = c.eat_p("|");
            // object-literal union => algebraic enum
            if c.is_p("{") {
                d.kind = OKind::AlgEnum;
                loop {
                    let line = c.line();
                    c.expect_p("{")?;
                    let members = fields_until_brace(&mut c)?;
                    c.expect_p("}")?;
                    let case = union_member(&c, members, line)?;
                    d.cases.push(case);
                    if !c.eat_p("|") {
                        break;
                    }
                }
            } else if leading_bar {
                return c.err("expected `{` after `|`");
            } else {
                let (t, marks) = type_expr(&mut c)?;
                d.target_optional = marks.iter().any(|m| m == "undefined");
                d.target = Some(t);
            }
            if !c.eat_p(";") && !c.at_line_start() {
                return c.err("expected `;` or a line break after the type alias");
            }
            f.decls.push(d);
        } else if c.eat_id("const") {
            c.ctx = "const";
            let name = c.ident()?;
            if c.eat_p(":") {
                let mut d = ODecl::new(OKind::Const, &name.text, name.line);
                let (t, _) = type_expr(&mut c)?;
                d.const_ty = Some(t);
                c.expect_p("=")?;
                let mut v = String::new();
                if c.eat_p("-") {
                    v.push('-');
                }
                match c.next() {
                    Some(t) if t.kind == TokKind::Number || t.kind == TokKind::Str => v.push_str(&t.text),
                    _ => return c.err("expected a literal"),
                }
                d.const_value = Some(v);
                c.eat_p(";");
                f.decls.push(d);
            } else {
                // helper function value (ReviverFunc / ReplacerFunc): opaque balanced expression up to `;`
                c.expect_p("=")?;
                let mut depth = 0i32;
                loop {
                    match c.next() {
                        None => return c.err("unterminated const initialiser"),
                        Some(t) if t.is_p("(") || t.is_p("{") || t.is_p("[") => depth += 1,
                        Some(t) if t.is_p(")") || t.is_p("}") || t.is_p("]") => {
                            depth -= 1;
                            if depth < 0 {
                                return c.err("unbalanced const initialiser");
                            }
                        }
                        Some(t) if t.is_p(";") && depth == 0 => break,
                        _ => {}
                    }
                }
                f.helper_defs.push(name.text.clone());
            }
        } else {
            return c.err("expected interface / type / enum / const after `export`");
        }
    }
    Ok(f.finish())
}

fn generics_decl(c: &mut Cur) -> PResult<Vec<String>> {
    let mut g = vec![];
    if c.eat_p("<") {
        loop {
            g.push(c.ident()?.text.clone());
            if !c.eat_p(",") {
                break;
            }
        }
        c.expect_p(">")?;
    }
    Ok(g)
}

fn fields_until_brace(c: &mut Cur) -> PResult<Vec<OField>> {
    let mut out = vec![];
    while !c.is_p("}") {
        if c.eof() {
            return c.err("unclosed `{`");
        }
        let mut fld = OField::default();
        fld.line = c.line();
        if c.is_id("readonly") && !c.is_p_at(1, ":") && !c.is_p_at(1, "?") {
            c.next();
            fld.readonly = true;
        }
        match c.peek() {
            Some(t) if t.kind == TokKind::Str => {
                c.next();
                fld.ident = t.text.clone();
                fld.key = t.text.clone();
                fld.bound = true;
            }
            Some(t) if t.kind == TokKind::Ident => {
                c.next();
                fld.ident = t.text.clone();
                fld.key = t.text.clone();
            }
            _ => return c.err("expected a property name"),
        }
        if c.eat_p("?") {
            fld.opt.push("?".into());
        }
        c.expect_p(":")?;
        let start = c.i;
        if c.is_p("{") {
            // inline object type: keep its properties
            c.next();
            fld.inline = fields_until_brace(c)?;
            c.expect_p("}")?;
            fld.ty = Some(OTy::Other("object".into()));
            fld.ty_text = "{..}".into();
            if !(c.eat_p(";") || c.eat_p(",")) && !c.is_p("}") && !c.at_line_start() {
                return c.err("expected `;` between properties");
            }
            out.push(fld);
            continue;
        }
        let (t, marks) = type_expr(c)?;
        fld.ty_text = c.t[start..c.i].iter().map(|t| t.text.clone()).collect::<Vec<_>>().join(" ");
        for m in marks {
            fld.opt.push(m);
        }
        fld.ty = Some(t);
        // separator: `;` or `,` — or a line break / closing brace
        if !(c.eat_p(";") || c.eat_p(",")) && !c.is_p("}") && !c.at_line_start() {
            return c.err("expected `;` between properties");
        }
        out.push(fld);
    }
    Ok(out)
}

/// union type; returns the non-null/undefined part and the markers found ("null", "undefined")
fn type_expr(c: &mut Cur) -> PResult<(OTy, Vec<String>)> {
    let mut marks = vec![];
    let mut main: Option<OTy> = None;
    let mut others: Vec<OTy> = vec![];
    loop {
        let t = postfix_type(c)?;
        match &t {
            OTy::Name { base, args } if args.is_empty() && base == "null" && main.is_some() => marks.push("null".into()),
            OTy::Name { base, args } if args.is_empty() && base == "undefined" && main.is_some() => marks.push("undefined".into()),
            _ => {
                if main.is_none() {
                    main = Some(t);
                } else {
                    others.push(t);
                }
            }
        }
        if !c.eat_p("|") {
            break;
        }
    }
    let m = main.unwrap();
    if !others.is_empty() {
        return Ok((OTy::Other(format!("union of {} members", others.len() + 1)), marks));
    }
    let m = if marks.iter().any(|x| x == "null") { OTy::Nullable(Box::new(m)) } else { m };
    Ok((m, marks))
}

fn postfix_type(c: &mut Cur) -> PResult<OTy> {
    let mut t = primary_type(c)?;
    while c.is_p("[") && c.is_p_at(1, "]") {
        c.next();
        c.next();
        t = OTy::Seq(Box::new(t));
    }
    Ok(t)
}

fn primary_type(c: &mut Cur) -> PResult<OTy> {
    match c.peek() {
        Some(t) if t.is_p("[") => {
            c.next();
            let mut elems = vec![];
            while !c.is_p("]") {
                let (e, _) = type_expr(c)?;
                elems.push(e);
                if !c.eat_p(",") {
                    break;
                }
            }
            c.expect_p("]")?;
            if !elems.is_empty() && elems.iter().all(|e| *e == elems[0]) {
                let n = elems.len();
                Ok(OTy::FixedSeq(Box::new(elems.into_iter().next().unwrap()), n))
            } else {
                Ok(OTy::Other("heterogeneous tuple".into()))
            }
        }
        Some(t) if t.is_p("{") => {
            c.next();
            let fs = fields_until_brace(c)?;
            c.expect_p("}")?;
            Ok(OTy::Other(format!("object({})", fs.iter().map(|f| f.key.clone()).collect::<Vec<_>>().join(","))))
        }
        Some(t) if t.is_p("(") => {
            c.next();
            let (inner, _) = type_expr(c)?;
            c.expect_p(")")?;
            Ok(inner)
        }
        Some(t) if t.kind == TokKind::Str => {
            c.next();
            Ok(OTy::Other(format!("literal:{}", t.text)))
        }
        Some(t) if t.kind == TokKind::Ident => {
            c.next();
            let mut base = t.text.clone();
            while c.is_p(".") {
                c.next();
                base.push('.');
                base.push_str(&c.ident()?.text);
            }
            let mut args = vec![];
            if c.eat_p("<") {
                loop {
                    let (a, _) = type_expr(c)?;
                    args.push(a);
                    if !c.eat_p(",") {
                        break;
                    }
                }
                c.expect_p(">")?;
            }
            if base == "Record" && args.len() == 2 {
                let mut it = args.into_iter();
                let k = it.next().unwrap();
                let v = it.next().unwrap();
                return Ok(OTy::Map(Box::new(k), Box::new(v)));
            }
            if base == "Array" && args.len() == 1 {
                return Ok(OTy::Seq(Box::new(args.into_iter().next().unwrap())));
            }
            Ok(OTy::Name { base, args })
        }
        _ => c.err("expected a type"),
    }
}

/// `{ tag: "wire", content[?]: T }` — re-read from the already parsed property list
fn union_member(_c: &Cur, members: Vec<OField>, line: usize) -> PResult<OCase> {
    let mut case = { let mut __c = OCase::new(&String::new(), line); __c.wire = vec![]; __c };
    let mut it = members.into_iter();
    let Some(tag) = it.next() else {
        return Err(GrammarError { construct: "union-member".into(), msg: "empty object type in union".into(), line });
    };
    match &tag.ty {
        Some(OTy::Other(s)) if s.starts_with("literal:") => {
            let w = s["literal:".len()..].to_string();
            case.ident = w.clone();
            case.wire.push(("ts.union-member".into(), w));
            case.tag.push(("ts.union-member".into(), tag.key.clone()));
        }
        _ => {
            return Err(GrammarError {
                construct: "union-member".into(),
                msg: format!("first property `{}` of a union member is not a string-literal discriminator", tag.key),
                line,
            })
        }
    }
    if let Some(content) = it.next() {
        case.content.push(("ts.union-member".into(), content.key.clone()));
        case.payload_optional = content.opt.iter().any(|m| m == "?");
        match &content.ty {
            Some(OTy::Other(s)) if s == "object" => {
                case.payload = None;
                case.fields = content.inline.clone();
                case.content.push(("ts.inline-object".into(), content.key.clone()));
            }
            Some(OTy::Name { base, args }) if base == "undefined" && args.is_empty() && case.payload_optional => {
                // `content?: undefined` is how a unit variant is written
                case.payload = None;
                case.payload_optional = false;
            }
            Some(t) => case.payload = Some(t.clone()),
            None => {}
        }
    }
    if it.next().is_some() {
        return Err(GrammarError { construct: "union-member".into(), msg: "more than two properties in a union member".into(), line });
    }
    Ok(case)
}

