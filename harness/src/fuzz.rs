//! Coverage-guided campaigns (cargo-fuzz / libFuzzer) for the thorough tiers. The semantic oracle sits inside each target
//! (harness/fuzz/fuzz_targets); a crash artefact becomes the replay file.
use crate::common::*;
use serde_json::json;
use std::process::Command;

pub fn target_bin(target: &str) -> String {
    format!("{VERIF}/target/fuzz/x86_64-unknown-linux-gnu/release/{target}")
}

fn build(target: &str) -> Result<(), String> {
    let out = Command::new("cargo")
        .args(["+nightly", "fuzz", "build", "--fuzz-dir", "fuzz", "-s", "none", "--target-dir", &format!("{VERIF}/target/fuzz"), target])
        .current_dir(format!("{VERIF}/harness"))
        .env("CARGO_NET_OFFLINE", "true")
        .env("CARGO_TERM_COLOR", "never")
        .output()
        .map_err(|e| format!("cargo could not be started: {e}"))?;
    if !out.status.success() {
        let err = String::from_utf8_lossy(&out.stderr);
        return Err(err.lines().filter(|l| l.contains("error")).take(3).collect::<Vec<_>>().join(" | "));
    }
    Ok(())
}

/// Run a fixed-work campaign: `runs` executions from the committed seed corpus (and once more from an empty corpus).
pub fn campaign(run: &Run, target: &str, runs: u64, max_len: u32) {
    if let Err(e) = build(target) {
        run.extra(&format!("fuzz_{target}"), json!({"status": "not run: fuzz build unavailable", "reason": e}));
        return;
    }
    let mut total = 0u64;
    let mut reports = vec![];
    for (label, seeded) in [("seeded-corpus", true), ("empty-corpus", false)] {
        let work = format!("{VERIF}/work/fuzz-{target}-{}-{label}", std::process::id());
        let _ = std::fs::remove_dir_all(&work);
        std::fs::create_dir_all(&work).unwrap();
        if seeded {
            if let Ok(rd) = std::fs::read_dir(format!("{VERIF}/corpus/{target}")) {
                for e in rd.flatten() {
                    let _ = std::fs::copy(e.path(), format!("{work}/{}", e.file_name().to_string_lossy()));
                }
            }
        }
        let art = format!("{work}-artifacts/");
        std::fs::create_dir_all(&art).unwrap();
        let n = if seeded { runs } else { runs / 4 };
        let out = Command::new(target_bin(target))
            .arg(&work)
            .args([&format!("-runs={n}"), &format!("-seed={}", (run.seed % 4_000_000_000).max(1)), "-len_control=0", &format!("-max_len={max_len}"), &format!("-artifact_prefix={art}"), "-print_final_stats=1"])
            .output();
        let Ok(out) = out else {
            run.extra(&format!("fuzz_{target}"), json!({"status": "not run: target binary missing"}));
            return;
        };
        let err = String::from_utf8_lossy(&out.stderr).into_owned();
        let done: u64 = err.lines().find(|l| l.starts_with("stat::number_of_executed_units:")).and_then(|l| l.rsplit(' ').next()).and_then(|x| x.trim().parse().ok()).unwrap_or(0);
        total += done;
        let mut crashed = false;
        if let Ok(rd) = std::fs::read_dir(&art) {
            for e in rd.flatten() {
                crashed = true;
                let dir = format!("{VERIF}/replays/found/{}", run.prop);
                let _ = std::fs::create_dir_all(&dir);
                let dest = format!("{dir}/fuzz-{target}-{}", e.file_name().to_string_lossy());
                let _ = std::fs::copy(e.path(), &dest);
                let msg = err.lines().filter(|l| l.contains("VIOLATION")).take(2).collect::<Vec<_>>().join(" | ");
                let v = Violation::new(format!("fuzz/{target}"), format!("libFuzzer target {target} found a failing input ({label}): {msg}"));
                // artefacts are raw inputs: the replay path is the artefact itself
                println!("VIOLATION property={} replay={}", run.prop, dest);
                println!("  sig={}", v.sig);
                println!("  | {}", v.detail);
                run.record_violation(&format!("fuzz-{target}"), &v, json!({"artifact": dest}), json!({"stderr_tail": err.lines().rev().take(15).collect::<Vec<_>>()}));
            }
        }
        if !out.status.success() && !crashed {
            reports.push(json!({"corpus": label, "status": format!("target exited with {:?} without an artefact", out.status.code())}));
        }
        reports.push(json!({"corpus": label, "executions": done, "crashed": crashed}));
        let _ = std::fs::remove_dir_all(&work);
        let _ = std::fs::remove_dir_all(&art);
    }
    run.count_eval(total);
    run.label_n(&format!("fuzz/{target}/executions"), total);
    run.extra(&format!("fuzz_{target}"), json!({"engine": "cargo-fuzz 0.13 / libFuzzer, -s none, nightly", "campaigns": reports}));
}

/// replay a raw libFuzzer artefact through the target (strict: any crash is a violation)
pub fn replay_artifact(target: &str, path: &str) -> i32 {
    if build(target).is_err() {
        eprintln!("fuzz build unavailable");
        return 2;
    }
    match Command::new(target_bin(target)).arg(path).output() {
        Ok(o) => {
            let err = String::from_utf8_lossy(&o.stderr);
            for l in err.lines().filter(|l| l.contains("VIOLATION")) {
                println!("  | {l}");
            }
            if o.status.success() { 0 } else { 1 }
        }
        Err(_) => 2,
    }
}
