//! Coverage-guided campaigns (cargo-fuzz / libFuzzer) for the thorough tiers. The semantic oracle sits inside each target
//! (harness/fuzz/fuzz_targets); a crash artefact becomes the replay file.
use crate::common::*;
use serde_json::json;
use std::process::Command;

pub fn target_bin(target: &str) -> String {
    format!("{VERIF}/target/fuzz/x86_64-unknown-linux-gnu/release/{target}")
}

fn build(target: &str) -> Result<(), String> {
    let out = Command::new("cargo")
        .args(["+nightly", "fuzz", "build", "--fuzz-dir", "fuzz", "-s", "none", "--target-dir", &format!("{VERIF}/target/fuzz"), target])
        .current_dir(format!("{VERIF}/harness"))
        .env("CARGO_NET_OFFLINE", "true")
        .env("CARGO_TERM_COLOR", "never")
        .output()
        .map_err(|e| format!("cargo could not be started: {e}"))?;
    if !out.status.success() {
        let err = String::from_utf8_lossy(&out.stderr);
        return Err(err.lines().filter(|l| l.contains("error")).take(3).collect::<Vec<_>>().join(" | "));
    }
    Ok(())
}

/// Run a fixed-work campaign: `runs` executions from the committed seed corpus and `runs / 4` from an empty corpus, each
/// split over PAR independent libFuzzer processes (own corpus copy, own seed) so that all cores are used.
pub fn campaign(run: &Run, target: &str, runs: u64, max_len: u32) {
    const PAR: u64 = 8;
    if let Err(e) = build(target) {
        run.extra(&format!("fuzz_{target}"), json!({"status": "not run: fuzz build unavailable", "reason": e}));
        return;
    }
    let mut total = 0u64;
    let mut reports = vec![];
    for (label, seeded) in [("seeded-corpus", true), ("empty-corpus", false)] {
        let n = (if seeded { runs } else { runs / 4 }) / PAR;
        let results: Vec<(u64, bool, Option<i32>, String, Vec<std::path::PathBuf>, String, String)> = std::thread::scope(|sc| {
            let hs: Vec<_> = (0..PAR)
                .map(|k| {
                    sc.spawn(move || {
                        let work = format!("{VERIF}/work/fuzz-{target}-{}-{label}-{k}", std::process::id());
                        let _ = std::fs::remove_dir_all(&work);
                        std::fs::create_dir_all(&work).unwrap();
                        if seeded {
                            if let Ok(rd) = std::fs::read_dir(format!("{VERIF}/corpus/{target}")) {
                                for e in rd.flatten() {
                                    let _ = std::fs::copy(e.path(), format!("{work}/{}", e.file_name().to_string_lossy()));
                                }
                            }
                        }
                        let art = format!("{work}-artifacts/");
                        std::fs::create_dir_all(&art).unwrap();
                        let seed = ((run.seed.wrapping_add(k * 7919)) % 4_000_000_000).max(1);
                        let out = Command::new(target_bin(target))
                            .arg(&work)
                            .args([&format!("-runs={n}"), &format!("-seed={seed}"), "-len_control=0", &format!("-max_len={max_len}"), &format!("-artifact_prefix={art}"), "-print_final_stats=1"])
                            .output();
                        let Ok(out) = out else {
                            return (0, false, None, String::new(), vec![], work, art);
                        };
                        let err = String::from_utf8_lossy(&out.stderr).into_owned();
                        let done: u64 = err.lines().find(|l| l.starts_with("stat::number_of_executed_units:")).and_then(|l| l.rsplit(' ').next()).and_then(|x| x.trim().parse().ok()).unwrap_or(0);
                        let arts: Vec<std::path::PathBuf> = std::fs::read_dir(&art).map(|rd| rd.flatten().map(|e| e.path()).collect()).unwrap_or_default();
                        (done, out.status.success(), out.status.code(), err, arts, work, art)
                    })
                })
                .collect();
            hs.into_iter().map(|h| h.join().expect("fuzz runner thread")).collect()
        });
        let mut done_all = 0;
        let mut crashed = false;
        for (done, success, code, err, arts, work, art) in results {
            done_all += done;
            for a in &arts {
                crashed = true;
                let dir = format!("{VERIF}/replays/found/{}", run.prop);
                let _ = std::fs::create_dir_all(&dir);
                let dest = format!("{dir}/fuzz-{target}-{}", a.file_name().map(|x| x.to_string_lossy().into_owned()).unwrap_or_default());
                let _ = std::fs::copy(a, &dest);
                let msg = err.lines().filter(|l| l.contains("VIOLATION")).take(2).collect::<Vec<_>>().join(" | ");
                let v = Violation::new(format!("fuzz/{target}"), format!("libFuzzer target {target} found a failing input ({label}): {msg}"));
                // artefacts are raw inputs: the replay path is the artefact itself
                println!("VIOLATION property={} replay={}", run.prop, dest);
                println!("  sig={}", v.sig);
                println!("  | {}", v.detail);
                run.record_violation(&format!("fuzz-{target}"), &v, json!({"artifact": dest}), json!({"stderr_tail": err.lines().rev().take(15).collect::<Vec<_>>()}));
            }
            if !success && arts.is_empty() {
                reports.push(json!({"corpus": label, "status": format!("a target process exited with {code:?} without an artefact")}));
            }
            let _ = std::fs::remove_dir_all(&work);
            let _ = std::fs::remove_dir_all(&art);
        }
        total += done_all;
        reports.push(json!({"corpus": label, "processes": PAR, "executions": done_all, "crashed": crashed}));
    }
    run.count_eval(total);
    run.label_n(&format!("fuzz/{target}/executions"), total);
    run.extra(&format!("fuzz_{target}"), json!({"engine": "cargo-fuzz 0.13 / libFuzzer, -s none, nightly", "campaigns": reports}));
}

/// replay a raw libFuzzer artefact through the target (strict: any crash is a violation)
pub fn replay_artifact(target: &str, path: &str) -> i32 {
    if build(target).is_err() {
        eprintln!("fuzz build unavailable");
        return 2;
    }
    match Command::new(target_bin(target)).arg(path).output() {
        Ok(o) => {
            let err = String::from_utf8_lossy(&o.stderr);
            for l in err.lines().filter(|l| l.contains("VIOLATION")) {
                println!("  | {l}");
            }
            if o.status.success() { 0 } else { 1 }
        }
        Err(_) => 2,
    }
}
