//! C08 — unsupported constructs are rejected with an error, never silently mis-generated.
use crate::cli;
use crate::common::*;
use crate::gen::{self, GenCfg};
use crate::model::*;
use crate::ts::{self, Cfg, Lang, Outcome, ALL_LANGS};
use proptest::prelude::*;
use proptest::sample::select;
use serde::{Deserialize, Serialize};
use serde_json::json;
use std::time::{Duration, SystemTime};

#[derive(Clone, Copy, Debug, PartialEq, Eq, Hash, Serialize, Deserialize)]
pub enum ChainEl {
    Vec,
    Opt,
    MapValue,
    Box,
    Arc,
    Array,
    Slice,
    Ref,
}
const CHAIN_ELS: [ChainEl; 8] = [ChainEl::Vec, ChainEl::Opt, ChainEl::MapValue, ChainEl::Box, ChainEl::Arc, ChainEl::Array, ChainEl::Slice, ChainEl::Ref];

#[derive(Clone, Debug, PartialEq, Eq, Hash, Serialize, Deserialize)]
pub enum Construct {
    Bad64(BadPrim),
    Tuple(usize),
    TupleStruct(usize),
    MultiFieldVariant(usize),
    Flatten,
    DataEnumWithoutTag,
    DataEnumWithoutContent,
    DataEnumWithoutBoth,
    TagOnUnitEnum,
    ContentOnUnitEnum,
    /// tag + content on an enum whose only data-carrying variant is skipped (what is generated is a unit enum)
    TagOnUnitEnumWithSkippedDataVariant,
    ConstNonLiteral(String),
}

#[derive(Clone, Copy, Debug, PartialEq, Eq, Hash, Serialize, Deserialize)]
pub enum Position {
    Field,
    VariantField,
    Payload,
    NewtypeStruct,
    Alias,
    ConstType,
    GenericArg,
    SerializedAsField,
    SerializedAsItem,
    /// the construct is an item of its own (tuple struct, enums, const)
    Item,
}

#[derive(Clone, Debug, Serialize, Deserialize)]
pub struct Case {
    pub base: Vec<Item>,
    pub construct: Construct,
    pub position: Position,
    pub chain: Vec<ChainEl>,
    pub skip: Skip,
    /// skip the variant rather than the field (VariantField position)
    pub skip_variant: bool,
    pub lang: Lang,
    pub folder: bool,
    pub preexisting: bool,
    pub victim_first: bool,
}

fn wrap(mut t: Ty, chain: &[ChainEl]) -> Ty {
    for c in chain.iter().rev() {
        t = match c {
            ChainEl::Vec => Ty::Vec(Box::new(t)),
            ChainEl::Opt => Ty::Opt(Box::new(t)),
            ChainEl::MapValue => Ty::Map(Box::new(Ty::Prim(Prim::String)), Box::new(t)),
            ChainEl::Box => Ty::Wrap(Wrapper::Box, Box::new(t)),
            ChainEl::Arc => Ty::Wrap(Wrapper::Arc, Box::new(t)),
            ChainEl::Array => Ty::Array(Box::new(t), 2),
            ChainEl::Slice => Ty::Slice(Box::new(t)),
            ChainEl::Ref => Ty::Ref(Box::new(t)),
        };
    }
    t
}

fn bad_ty(c: &Construct) -> Option<Ty> {
    match c {
        Construct::Bad64(b) => Some(Ty::Bad(*b)),
        Construct::Tuple(n) => Some(Ty::Tuple((0..*n).map(|i| if i % 2 == 0 { Ty::Prim(Prim::U8) } else { Ty::Prim(Prim::String) }).collect())),
        _ => None,
    }
}

/// positions a construct can be planted at
fn positions_of(c: &Construct) -> Vec<Position> {
    match c {
        Construct::Bad64(_) | Construct::Tuple(_) => vec![
            Position::Field,
            Position::VariantField,
            Position::Payload,
            Position::NewtypeStruct,
            Position::Alias,
            Position::ConstType,
            Position::GenericArg,
            Position::SerializedAsField,
            Position::SerializedAsItem,
        ],
        Construct::Flatten => vec![Position::Field, Position::VariantField],
        Construct::MultiFieldVariant(_) => vec![Position::Payload],
        _ => vec![Position::Item],
    }
}

/// the victim item(s) carrying the construct
/// `flatten` rarely comes alone: other serde arguments in the same or in separate attributes, before or after it
fn flatten_company(f: &mut Field, c: &Case) {
    let k = c.base.len() + c.lang as usize + c.chain.len() + c.victim_first as usize * 2 + c.preexisting as usize * 4 + c.folder as usize * 8;
    if k % 3 != 0 {
        f.default = Dflt::Bare;
    }
    if k % 4 == 1 {
        f.decoys.push(Decoy::Alias);
    }
    // a type override next to it must not make the check for flatten unreachable
    if k % 5 == 2 {
        f.serialized_as = Some(Ty::Map(Box::new(Ty::Prim(Prim::String)), Box::new(Ty::Prim(Prim::String))));
    }
    // layout: bit 0 = one attribute per argument, bit 2 = reversed order
    f.layout = (k % 8) as u8;
}

pub fn victims(c: &Case) -> Vec<Item> {
    let plain = |n: &str| Field::new(n, Ty::Prim(Prim::String));
    // the 64-bit primitives also in their path-qualified spellings (`std::primitive::u64`, `::core::primitive::usize`)
    let bad = bad_ty(&c.construct).map(|t| {
        let t = match (&t, (c.base.len() + c.chain.len() + c.lang as usize) % 3) {
            (Ty::Bad(_), 1) => Ty::Qual(vec!["std".into(), "primitive".into()], Box::new(t)),
            (Ty::Bad(_), 2) => Ty::Qual(vec!["".into(), "core".into(), "primitive".into()], Box::new(t)),
            _ => t,
        };
        wrap(t, &c.chain)
    });
    let mut out = vec![];
    match c.position {
        Position::Field => {
            let mut f = Field::new("planted", bad.clone().unwrap_or(Ty::Prim(Prim::I32)));
            if c.construct == Construct::Flatten {
                f.flatten = true;
                f.ty = Ty::user("Companion");
                flatten_company(&mut f, c);
            }
            f.skip = c.skip;
            out.push(Item::new("Victim", Kind::Struct { shape: Shape::Named(vec![plain("before"), f, plain("after")]), rename_all: None }));
        }
        Position::VariantField => {
            let mut f = Field::new("planted", bad.clone().unwrap_or(Ty::Prim(Prim::I32)));
            if c.construct == Construct::Flatten {
                f.flatten = true;
                f.ty = Ty::user("Companion");
                flatten_company(&mut f, c);
            }
            let mut v = Variant::unit("Holder");
            if c.skip_variant {
                v.skip = c.skip;
            } else {
                f.skip = c.skip;
            }
            v.payload = Payload::Struct { fields: vec![plain("before"), f], rename_all: None };
            let mut keep = Variant::unit("Keep");
            keep.payload = Payload::Newtype(Ty::Prim(Prim::String));
            out.push(Item::new("Victim", Kind::Enum { variants: vec![keep, v], rename_all: None, tag: Some("type".into()), content: Some("content".into()) }));
        }
        Position::Payload => {
            let mut v = Variant::unit("Holder");
            v.skip = c.skip;
            v.payload = match &c.construct {
                Construct::MultiFieldVariant(n) => Payload::Tuple((0..*n).map(|_| Ty::Prim(Prim::U8)).collect()),
                _ => Payload::Newtype(bad.clone().unwrap()),
            };
            let mut keep = Variant::unit("Keep");
            keep.payload = Payload::Newtype(Ty::Prim(Prim::String));
            out.push(Item::new("Victim", Kind::Enum { variants: vec![keep, v], rename_all: None, tag: Some("type".into()), content: Some("content".into()) }));
        }
        Position::NewtypeStruct => out.push(Item::new("Victim", Kind::Struct { shape: Shape::Newtype(bad.clone().unwrap()), rename_all: None })),
        Position::Alias => out.push(Item::new("Victim", Kind::Alias { ty: bad.clone().unwrap() })),
        Position::ConstType => out.push(Item::new("VICTIM", Kind::Const { ty: bad.clone().unwrap(), expr: "1".into() })),
        Position::GenericArg => {
            let mut g = Item::new("Wrapper2", Kind::Struct { shape: Shape::Named(vec![Field::new("inner", Ty::Param("T".into()))]), rename_all: None });
            g.generics = vec!["T".into()];
            out.push(g);
            let mut f = Field::new("planted", Ty::User { name: "Wrapper2".into(), args: vec![bad.clone().unwrap()] });
            f.skip = c.skip;
            out.push(Item::new("Victim", Kind::Struct { shape: Shape::Named(vec![plain("before"), f]), rename_all: None }));
        }
        Position::SerializedAsField => {
            let mut f = Field::new("planted", Ty::user("SomeForeignType"));
            f.serialized_as = bad.clone();
            f.skip = c.skip;
            out.push(Item::new("Victim", Kind::Struct { shape: Shape::Named(vec![plain("before"), f]), rename_all: None }));
        }
        Position::SerializedAsItem => {
            let mut it = Item::new("Victim", Kind::Struct { shape: Shape::Named(vec![plain("before")]), rename_all: None });
            it.serialized_as = bad.clone();
            out.push(it);
        }
        Position::Item => match &c.construct {
            Construct::TupleStruct(n) => out.push(Item::new("Victim", Kind::Struct { shape: Shape::Tuple((0..*n).map(|_| Ty::Prim(Prim::U8)).collect()), rename_all: None })),
            Construct::DataEnumWithoutTag | Construct::DataEnumWithoutContent | Construct::DataEnumWithoutBoth => {
                let mut v = Variant::unit("Data");
                v.payload = Payload::Newtype(Ty::Prim(Prim::String));
                v.skip = c.skip; // skipping the only data variant leaves a plain unit enum, which needs no tag
                let (tag, content) = match &c.construct {
                    Construct::DataEnumWithoutTag => (None, Some("content".to_string())),
                    Construct::DataEnumWithoutContent => (Some("type".to_string()), None),
                    _ => (None, None),
                };
                out.push(Item::new("Victim", Kind::Enum { variants: vec![Variant::unit("Plain"), v], rename_all: None, tag, content }));
            }
            Construct::TagOnUnitEnumWithSkippedDataVariant => {
                let mut v = Variant::unit("Data");
                v.payload = Payload::Newtype(Ty::Prim(Prim::String));
                v.skip = if c.skip == Skip::None { Skip::Serde } else { c.skip };
                out.push(Item::new("Victim", Kind::Enum { variants: vec![Variant::unit("A"), v, Variant::unit("B")], rename_all: None, tag: Some("type".into()), content: Some("content".into()) }));
            }
            Construct::TagOnUnitEnum => out.push(Item::new("Victim", Kind::Enum { variants: vec![Variant::unit("A"), Variant::unit("B")], rename_all: None, tag: Some("type".into()), content: None })),
            Construct::ContentOnUnitEnum => out.push(Item::new("Victim", Kind::Enum { variants: vec![Variant::unit("A"), Variant::unit("B")], rename_all: None, tag: None, content: Some("content".into()) })),
            Construct::ConstNonLiteral(e) => out.push(Item::new("VICTIM", Kind::Const { ty: Ty::Prim(Prim::U32), expr: e.clone() })),
            _ => {}
        },
    }
    out
}

fn companion() -> Item {
    Item::new("Companion", Kind::Struct { shape: Shape::Named(vec![Field::new("c", Ty::Prim(Prim::U8))]), rename_all: None })
}

pub fn case_items(c: &Case) -> Vec<Item> {
    let mut v = victims(c);
    let mut items = vec![companion()];
    if c.victim_first {
        v.extend(c.base.iter().cloned());
        items.extend(v);
    } else {
        items.extend(c.base.iter().cloned());
        items.extend(v);
    }
    items
}

fn skip_applies(c: &Case) -> bool {
    // with its only data variant skipped a data enum becomes a unit enum: fine without attributes, but a remaining
    // tag or content attribute is then "tag/content on a unit enum" and must still be rejected
    if matches!(c.construct, Construct::DataEnumWithoutBoth) {
        return c.skip != Skip::None;
    }
    if matches!(c.construct, Construct::DataEnumWithoutTag | Construct::DataEnumWithoutContent) {
        return false;
    }
    if matches!(c.construct, Construct::TagOnUnitEnumWithSkippedDataVariant) {
        return false;
    }
    c.skip != Skip::None && matches!(c.position, Position::Field | Position::VariantField | Position::Payload | Position::GenericArg | Position::SerializedAsField)
}

fn chain_class(ch: &[ChainEl]) -> String {
    match ch.len() {
        0 => "direct".into(),
        1 => format!("{:?}", ch[0]).to_lowercase(),
        n => format!("depth{}", n.min(5)),
    }
}
fn construct_class(c: &Construct) -> String {
    match c {
        Construct::Bad64(b) => format!("{:?}", b).to_lowercase(),
        Construct::Tuple(_) => "tuple".into(),
        Construct::TupleStruct(_) => "tuple-struct".into(),
        Construct::MultiFieldVariant(_) => "multi-field-variant".into(),
        Construct::Flatten => "flatten".into(),
        Construct::DataEnumWithoutTag => "data-enum-without-tag".into(),
        Construct::DataEnumWithoutContent => "data-enum-without-content".into(),
        Construct::DataEnumWithoutBoth => "data-enum-without-tag-and-content".into(),
        Construct::TagOnUnitEnum => "tag-on-unit-enum".into(),
        Construct::ContentOnUnitEnum => "content-on-unit-enum".into(),
        Construct::TagOnUnitEnumWithSkippedDataVariant => "tag-on-unit-enum(data-variant-skipped)".into(),
        Construct::ConstNonLiteral(e) => format!("const-non-literal({})", e),
    }
}

pub fn case_strategy() -> BoxedStrategy<Case> {
    let mut g = GenCfg::base();
    g.min_items = 0;
    g.max_items = 3;
    g.ty_depth = 2;
    g.max_fields = 3;
    g.kw_fields = false;
    let construct = prop_oneof![
        4 => select(vec![BadPrim::U64, BadPrim::I64, BadPrim::Usize, BadPrim::Isize]).prop_map(Construct::Bad64),
        2 => (1usize..=3).prop_map(Construct::Tuple),
        1 => (2usize..=3).prop_map(Construct::TupleStruct),
        1 => (2usize..=3).prop_map(Construct::MultiFieldVariant),
        2 => Just(Construct::Flatten),
        2 => prop_oneof![Just(Construct::DataEnumWithoutTag), Just(Construct::DataEnumWithoutContent), Just(Construct::DataEnumWithoutBoth), Just(Construct::TagOnUnitEnum), Just(Construct::ContentOnUnitEnum), Just(Construct::TagOnUnitEnumWithSkippedDataVariant)],
        2 => select(vec!["\"s\"", "1.5", "true", "1 + 2", "OTHER", "f()", "-1 as u32", "b'a'", "{ 3 }", "2 * OTHER", "u32::MAX", "(4)", "-5", "!0", "!0xFF", "-(!1)", "*&7"]).prop_map(|s| Construct::ConstNonLiteral(s.to_string())),
    ];
    (
        gen::program(&g),
        construct,
        any::<prop::sample::Index>(),
        proptest::collection::vec(select(CHAIN_ELS.to_vec()), 0..=5),
        prop_oneof![2 => Just(Skip::None), 1 => Just(Skip::Serde), 1 => Just(Skip::Typeshare)],
        any::<bool>(),
        crate::ws::lang_strategy(),
        any::<bool>(),
        any::<bool>(),
        any::<bool>(),
    )
        .prop_map(|(base, construct, pidx, chain, skip, skip_variant, lang, folder, preexisting, victim_first)| {
            let ps = positions_of(&construct);
            let position = ps[pidx.index(ps.len())];
            // a reference cannot wrap a slice reference twice etc.: the printer handles all chains; serialized_as strings
            // must parse as a type: `&[T]` and `&T` are fine in syn
            let chain = if bad_ty(&construct).is_some() { chain } else { vec![] };
            Case { base, construct, position, chain, skip, skip_variant, lang, folder, preexisting, victim_first }
        })
        .boxed()
}

/// `(4)`, `-5` are literal forms a user would call integer literals; the statement lists "a non-integer-literal const"
fn is_integer_literal_form(e: &str) -> bool {
    let t = e.trim();
    t.parse::<i128>().is_ok()
}

pub struct C08InProc;
impl SubCheck for C08InProc {
    type Case = Case;
    fn crash_guard(&self) -> bool {
        true
    }
    fn name(&self) -> &'static str {
        "c08-inprocess"
    }
    fn strategy(&self, _tier: Tier) -> BoxedStrategy<Case> {
        case_strategy()
    }
    fn eval(&self, run: &Run, c: &Case, _w: &mut Worker, counting: bool) -> Vec<Violation> {
        let src = items_src(&case_items(c));
        let skipped = skip_applies(c);
        let cc = construct_class(&c.construct);
        if let Construct::ConstNonLiteral(e) = &c.construct {
            if is_integer_literal_form(e) || e == "(4)" {
                // `-5` / `(4)` are integer literals: if they are accepted, the generated value must be the literal's
                let want = if e == "(4)" { "4".to_string() } else { e.trim().to_string() };
                let mut out = vec![];
                for lang in [Lang::TypeScript, Lang::Go, Lang::Python] {
                    if let Outcome::Ok(text) = ts::generate(lang, &Cfg::plain(), &[&src], &[]) {
                        let line = text.lines().find(|l| l.to_lowercase().contains("victim")).unwrap_or("");
                        let got = line.rsplit('=').next().unwrap_or("").trim().trim_end_matches(';').trim();
                        if got != want {
                            out.push(Violation::new(format!("const-literal({e})/Item/direct/wrong-value"), format!("{}: `const VICTIM: u32 = {e}` generated as `{line}`", lang.name())));
                        }
                    }
                }
                out.dedup_by(|a, b| a.sig == b.sig);
                return out;
            }
        }
        if counting {
            run.label(&format!("c08/{}/{:?}/{}/{}", cc.split('(').next().unwrap_or(""), c.position, chain_class(&c.chain), if skipped { "skipped" } else { "live" }));
            if c.chain.len() >= 2 || c.position != Position::Field {
                run.nontrivial(hash_of(&(&cc, c.position, &c.chain, skipped)));
            }
            run.sample("planted", 3, || json!({"construct": cc, "position": format!("{:?}", c.position), "chain": format!("{:?}", c.chain), "skip": format!("{:?}", c.skip), "source": src}));
        }
        let mut out = vec![];
        // the rejection happens in the parser: one language suffices in-process, all six in the thorough tier
        let langs: Vec<Lang> = if run.tier == Tier::Thorough { ALL_LANGS.to_vec() } else { vec![c.lang] };
        for lang in langs {
            let cfg = Cfg::plain();
            let o = ts::generate(lang, &cfg, &[&src], &[]);
            match (&o, skipped) {
                (Outcome::Ok(text), false) => {
                    let wrong = if let Construct::ConstNonLiteral(_) = &c.construct { "/wrong-value" } else { "" };
                    out.push(Violation::new(
                        format!("{}/{:?}/{}/accepted{}", cc, c.position, chain_class(&c.chain), wrong),
                        format!("{}: the unsupported construct was accepted and code was generated:\n{}\n--- generated:\n{}", lang.name(), items_src(&victims(c)), text.lines().filter(|l| l.contains("ictim") || l.contains("planted") || l.contains("VICTIM")).take(6).collect::<Vec<_>>().join("\n")),
                    ));
                }
                (Outcome::ParseErr(_), false) | (Outcome::GenErr(_), false) => {}
                (Outcome::Ok(text), true) => {
                    // skipped: must succeed and be free of the construct
                    if text.contains("planted") {
                        out.push(Violation::new(format!("{}/{:?}/{}/skipped-member-generated", cc, c.position, chain_class(&c.chain)), format!("{}: the skipped member still appears in the output", lang.name())));
                    }
                }
                (Outcome::ParseErr(_), true) | (Outcome::GenErr(_), true) => {
                    out.push(Violation::new(
                        format!("{}/{:?}/{}/skip-still-fails/{:?}{}", cc, c.position, chain_class(&c.chain), c.skip, if c.skip_variant && c.position == Position::VariantField { "/on-variant" } else { "" }),
                        format!("{}: the construct sits under {:?} but the run still fails: {}", lang.name(), c.skip, outcome_text(&o)),
                    ));
                }
                (Outcome::Panic(_), _) | (Outcome::Empty, _) => {
                    if counting {
                        run.label("c08/panic-or-empty(left to C07)");
                    }
                }
            }
        }
        out.sort_by(|a, b| a.sig.cmp(&b.sig));
        out.dedup_by(|a, b| a.sig == b.sig);
        out
    }
    fn render(&self, c: &Case) -> serde_json::Value {
        json!({"source": items_src(&case_items(c)), "construct": construct_class(&c.construct), "position": format!("{:?}", c.position)})
    }
}
fn outcome_text(o: &Outcome) -> String {
    match o {
        Outcome::ParseErr(e) => e.join("; "),
        Outcome::GenErr(e) => e.clone(),
        other => format!("{other:?}"),
    }
}

pub struct C08Cli;
impl SubCheck for C08Cli {
    type Case = Case;
    fn name(&self) -> &'static str {
        "c08-cli"
    }
    fn strategy(&self, _tier: Tier) -> BoxedStrategy<Case> {
        case_strategy()
    }
    fn eval(&self, run: &Run, c: &Case, w: &mut Worker, counting: bool) -> Vec<Violation> {
        if let Construct::ConstNonLiteral(e) = &c.construct {
            if is_integer_literal_form(e) || e == "(4)" {
                return vec![];
            }
        }
        let mut out = vec![];
        let skipped = skip_applies(c);
        let cc = construct_class(&c.construct);
        let lang = c.lang;
        // consts cannot be generated by Kotlin/Swift/Scala at all: keep the const constructs to the others
        if matches!(c.construct, Construct::ConstNonLiteral(_)) || c.position == Position::ConstType {
            if matches!(lang, Lang::Kotlin | Lang::Swift | Lang::Scala) {
                return out;
            }
        }
        let root = cli::fresh_dir(&w.scratch, "c08");
        let tree = root.join("tree");
        // the victim lives in its own file next to a healthy one
        let items = case_items(c);
        let healthy = items_src(&[companion()]);
        // ... and next to two healthy crates, one sorting before and one after the victim's (folder mode writes one file per crate)
        cli::write_tree(
            &tree,
            &[
                ("the-crate/src/healthy.rs".into(), healthy.into_bytes()),
                ("the-crate/src/victim_file.rs".into(), items_src(&items[1..]).into_bytes()),
                ("aaa-clean/src/lib.rs".into(), b"#[typeshare]\npub struct CleanFirst { pub f: u8 }\n".to_vec()),
                ("zzz-clean/src/lib.rs".into(), b"#[typeshare]\npub struct CleanLast { pub f: u8 }\n".to_vec()),
            ],
        );
        let outdir = root.join("out");
        std::fs::create_dir_all(&outdir).unwrap();
        let out_path = if c.folder { outdir.clone() } else { outdir.join(format!("out.{}", lang.ext())) };
        let old = SystemTime::UNIX_EPOCH + Duration::from_secs(1_000_000_000);
        let mut pre: Vec<(String, Vec<u8>)> = vec![];
        if c.preexisting {
            let names: Vec<String> = if c.folder {
                vec![format!("{}.{}", if lang == Lang::Swift { "TheCrate" } else { "the_crate" }, lang.ext()), "unrelated.txt".into()]
            } else {
                vec![format!("out.{}", lang.ext())]
            };
            for n in names {
                let p = outdir.join(&n);
                std::fs::write(&p, b"previous contents \x00\x01 that must survive\n").unwrap();
                if let Ok(f) = std::fs::OpenOptions::new().write(true).open(&p) {
                    let _ = f.set_modified(old);
                }
                pre.push((n, std::fs::read(&p).unwrap()));
            }
        }
        let cfg = Cfg::plain();
        let mut args = cli::lang_args(lang, &cfg);
        args.push(if c.folder { "-d".into() } else { "-o".into() });
        args.push(out_path.to_string_lossy().into_owned());
        args.push(tree.to_string_lossy().into_owned());
        let r = cli::run(&args, &root, &[], Duration::from_secs(15));
        let after = cli::read_tree(&outdir);
        if counting {
            run.label(&format!("c08cli/{}/{}/{}/exit={:?}", lang.short(), if c.folder { "folder" } else { "single" }, if skipped { "skipped" } else { "live" }, r.code));
            if c.chain.len() >= 2 || c.position != Position::Field || c.preexisting {
                run.nontrivial(hash_of(&(&cc, c.position, &c.chain, skipped, lang, c.folder, c.preexisting)));
            }
        }
        let sig_base = format!("cli/{}/{:?}/{}", cc, c.position, chain_class(&c.chain));
        if r.timed_out || r.panicked() {
            if counting {
                run.label("c08cli/panic-or-hang(left to C07)");
            }
        } else if !skipped {
            if r.code == Some(0) {
                out.push(Violation::new(format!("{sig_base}/accepted"), format!("{}: exit 0 although the input contains the unsupported construct:\n{}", lang.name(), items_src(&victims(c)))));
            } else {
                if !r.stderr.contains("victim_file.rs") {
                    out.push(Violation::new(format!("{sig_base}/no-file-in-diagnostic"), format!("{}: exit {:?} but the error log does not name victim_file.rs: {}", lang.name(), r.code, r.stderr.lines().rev().take(2).collect::<Vec<_>>().join(" | "))));
                }
                // no output file written or modified
                let mut changed = vec![];
                for (n, b) in &after {
                    match pre.iter().find(|(pn, _)| pn == n) {
                        None => changed.push(format!("created {n}")),
                        Some((_, pb)) => {
                            let mt = std::fs::metadata(outdir.join(n)).and_then(|m| m.modified()).ok();
                            if pb != b {
                                changed.push(format!("modified {n}"));
                            } else if mt != Some(old) {
                                changed.push(format!("touched {n}"));
                            }
                        }
                    }
                }
                for (n, _) in &pre {
                    if !after.iter().any(|(an, _)| an == n) {
                        changed.push(format!("deleted {n}"));
                    }
                }
                if !changed.is_empty() {
                    out.push(Violation::new(format!("{sig_base}/output-modified/{}", if c.folder { "folder" } else { "single" }), format!("{}: the run failed (exit {:?}) but the output location changed: {:?}", lang.name(), r.code, changed)));
                }
            }
        } else {
            if r.code != Some(0) {
                out.push(Violation::new(format!("{sig_base}/skip-still-fails/{:?}", c.skip), format!("{}: the construct is skipped ({:?}) but the run fails: {}", lang.name(), c.skip, r.stderr.lines().rev().take(2).collect::<Vec<_>>().join(" | "))));
            } else {
                let produced = after.iter().any(|(n, b)| n.ends_with(lang.ext()) && !b.starts_with(b"previous contents"));
                if !produced {
                    out.push(Violation::new(format!("{sig_base}/skipped-but-no-output"), format!("{}: exit 0 but no output was produced", lang.name())));
                }
                if after.iter().any(|(_, b)| String::from_utf8_lossy(b).contains("planted")) {
                    out.push(Violation::new(format!("{sig_base}/skipped-member-generated"), format!("{}: the skipped member appears in the output", lang.name())));
                }
            }
        }
        let _ = std::fs::remove_dir_all(&root);
        out
    }
    fn render(&self, c: &Case) -> serde_json::Value {
        json!({"source": items_src(&case_items(c)), "construct": construct_class(&c.construct), "position": format!("{:?}", c.position), "lang": c.lang.name(), "folder": c.folder, "preexisting": c.preexisting})
    }
}

pub fn run(run: &Run) {
    ts::install_panic_hook();
    run.set_rule("a supported program of 0-3 items plus one planted unsupported construct: u64/i64/usize/isize or a tuple at a position (named field, struct-variant field, newtype payload, newtype-struct field, alias target, const type, generic argument, serialized_as string on a field or item) under a chain of 0-5 of Vec/Option/HashMap value/Box/Arc/[_;n]/&[_]/&; tuple struct / tuple variant with 2-3 fields; serde(flatten) on a struct field / struct-variant field; data enum missing tag, content or both; tag / content on a unit enum; const initialised by something other than an integer literal; x {no skip, serde(skip), typeshare(skip)} on the enclosing field or variant where one exists. In-process: generation must fail without skip and succeed (free of the member) with skip. Real binary: without skip exit != 0, the error log names the file, and the output location is unchanged (pre-existing files byte- and mtime-identical, nothing created); with skip exit 0 and output present. Non-trivial = chain depth >= 2, a position other than a named struct field, or a pre-existing output file.");
    run.assume("`-5` and `(4)` count as integer literals (nothing is claimed for them)");
    replay_regress(run, &C08InProc);
    search(run, &C08InProc, run.tier.pick(30_000, 400_000));
    if cli::bin_available() {
        replay_regress(run, &C08Cli);
        search(run, &C08Cli, run.tier.pick(2400, 30_000));
    } else {
        run.inconclusive("typeshare binary not built");
    }
}

pub fn replay(run: &Run, case: &serde_json::Value) -> Result<Vec<Violation>, String> {
    ts::install_panic_hook();
    let mut v = replay_case(run, &C08InProc, case)?;
    if cli::bin_available() {
        v.extend(replay_case(run, &C08Cli, case)?);
    }
    Ok(v)
}
