//! Persistent CPython helper (parses / tokenises / executes generated Python).
use serde_json::Value;
use std::io::{BufRead, BufReader, Write};
use std::process::{Child, ChildStdin, ChildStdout, Command, Stdio};

pub struct PyWorker {
    child: Child,
    stdin: ChildStdin,
    stdout: BufReader<ChildStdout>,
}

impl PyWorker {
    pub fn spawn() -> PyWorker {
        let mut child = Command::new("python3")
            .arg("-u")
            .arg(format!("{}/pyworker/worker.py", crate::common::VERIF))
            .env_clear()
            .env("PATH", "/usr/local/bin:/usr/bin:/bin")
            .env("PYTHONDONTWRITEBYTECODE", "1")
            .env("PYTHONHASHSEED", "0")
            .stdin(Stdio::piped())
            .stdout(Stdio::piped())
            .stderr(Stdio::inherit())
            .spawn()
            .expect("spawn python3 worker");
        let stdin = child.stdin.take().unwrap();
        let stdout = BufReader::new(child.stdout.take().unwrap());
        PyWorker { child, stdin, stdout }
    }
    pub fn call(&mut self, req: &Value) -> Value {
        let line = serde_json::to_string(req).unwrap();
        if self.stdin.write_all(line.as_bytes()).is_err() || self.stdin.write_all(b"\n").is_err() {
            return Value::Null;
        }
        let _ = self.stdin.flush();
        let mut out = String::new();
        match self.stdout.read_line(&mut out) {
            Ok(n) if n > 0 => serde_json::from_str(&out).unwrap_or(Value::Null),
            _ => Value::Null,
        }
    }
}
impl Drop for PyWorker {
    fn drop(&mut self) {
        let _ = self.child.kill();
        let _ = self.child.wait();
    }
}
