//! C20 — CLI options override typeshare.toml; generated config files round-trip.
use crate::cli;
use crate::common::*;
use crate::observe::observe;
use crate::obs::*;
use crate::ts::Lang;
use proptest::prelude::*;
use proptest::sample::select;
use serde::{Deserialize, Serialize};
use serde_json::json;
use std::collections::BTreeMap;
use std::time::Duration;

pub const SETTINGS: [&str; 7] = ["swift-prefix", "kotlin-prefix", "java-package", "module-name", "scala-package", "scala-module-name", "go-package"];

fn toml_path(setting: &str) -> (&'static str, &'static str) {
    match setting {
        "swift-prefix" => ("swift", "prefix"),
        "kotlin-prefix" => ("kotlin", "prefix"),
        "java-package" => ("kotlin", "package"),
        "module-name" => ("kotlin", "module_name"),
        "scala-package" => ("scala", "package"),
        "scala-module-name" => ("scala", "module_name"),
        "go-package" => ("go", "package"),
        _ => ("", ""),
    }
}
fn default_of(_setting: &str) -> &'static str {
    ""
}

#[derive(Clone, Debug, Serialize, Deserialize)]
pub struct Case {
    pub cli: BTreeMap<String, String>,
    pub file: BTreeMap<String, String>,
    /// file-only tables
    pub mappings: bool,
    pub swift_decorators: Vec<String>,
    pub swift_constraints: Vec<String>,
    pub codablevoid_constraints: Vec<String>,
    pub go_acronyms: Vec<String>,
    pub go_no_pointer_slice: bool,
    /// None: no file at all; Some(None): located by -c; Some(Some(depth)): by ancestor search from a cwd `depth` levels below
    pub locate: Option<Option<usize>>,
    pub lang: Lang,
    /// with -c: a *different* typeshare.toml is discoverable from the working directory (the named file must win)
    #[serde(default)]
    pub decoy_in_cwd: bool,
}

const PROGRAM: &str = r#"#[typeshare]
#[typeshare(swiftGenericConstraints = "T: Equatable")]
pub struct Widget<T, U> {
    pub user_id: String,
    pub tags: Vec<String>,
    pub maybe: Option<Vec<u8>>,
    pub other: Gadget,
    pub generic: T,
    pub second: U,
    pub ext: ExternalThing,
    pub nothing: (),
}

#[typeshare]
pub struct Gadget {
    pub id: u32,
}

#[typeshare]
pub struct IdCard {
    pub http_url: String,
}
"#;

fn value_for(setting: &str, side: &str, k: u8) -> String {
    let base = match setting {
        "swift-prefix" => "Sw",
        "kotlin-prefix" => "Kt",
        "java-package" => "com.kt",
        "module-name" => "ktmod",
        "scala-package" => "org.sc",
        "scala-module-name" => "scmod",
        "go-package" => "gopkg",
        _ => "x",
    };
    if setting.contains("package") && !setting.starts_with("go") {
        format!("{base}.{side}{k}")
    } else {
        format!("{base}{}{k}", if side == "cli" { "C" } else { "F" })
    }
}

pub fn file_toml(c: &Case) -> String {
    let mut sections: BTreeMap<&str, Vec<String>> = BTreeMap::new();
    for (s, v) in &c.file {
        let (sec, key) = toml_path(s);
        sections.entry(sec).or_default().push(format!("{key} = {:?}", v));
    }
    if !c.swift_decorators.is_empty() {
        sections.entry("swift").or_default().push(format!("default_decorators = {:?}", c.swift_decorators));
    }
    if !c.swift_constraints.is_empty() {
        sections.entry("swift").or_default().push(format!("default_generic_constraints = {:?}", c.swift_constraints));
    }
    if !c.codablevoid_constraints.is_empty() {
        sections.entry("swift").or_default().push(format!("codablevoid_constraints = {:?}", c.codablevoid_constraints));
    }
    if !c.go_acronyms.is_empty() {
        sections.entry("go").or_default().push(format!("uppercase_acronyms = {:?}", c.go_acronyms));
    }
    if c.go_no_pointer_slice {
        sections.entry("go").or_default().push("no_pointer_slice = true".into());
    }
    let mut out = String::new();
    for (sec, lines) in &sections {
        out.push_str(&format!("[{sec}]\n"));
        for l in lines {
            out.push_str(l);
            out.push('\n');
        }
        out.push('\n');
    }
    if c.mappings {
        for sec in ["swift", "kotlin", "scala", "typescript", "go", "python"] {
            out.push_str(&format!("[{sec}.type_mappings]\n\"ExternalThing\" = \"Mapped_{sec}\"\n\n"));
        }
    }
    out
}

fn effective(c: &Case, setting: &str) -> String {
    if let Some(v) = c.cli.get(setting) {
        return v.clone();
    }
    if c.locate.is_some() {
        if let Some(v) = c.file.get(setting) {
            return v.clone();
        }
    }
    default_of(setting).to_string()
}

pub struct C20;
impl SubCheck for C20 {
    type Case = Case;
    fn name(&self) -> &'static str {
        "c20-precedence"
    }
    fn strategy(&self, _tier: Tier) -> BoxedStrategy<Case> {
        let side = |name: &'static str| proptest::collection::vec((any::<bool>(), 0u8..4), SETTINGS.len()).prop_map(move |v| {
            let mut m = BTreeMap::new();
            for (s, (on, k)) in SETTINGS.iter().zip(v) {
                if on {
                    // an option given with an empty value is still given: `--swift-prefix ""` switches a configured prefix off
                    let val = if k == 3 && name == "cli" && s.ends_with("prefix") { String::new() } else { value_for(s, name, k % 3) };
                    m.insert(s.to_string(), val);
                }
            }
            m
        });
        (
            side("cli"),
            side("file"),
            any::<bool>(),
            proptest::sample::subsequence(vec!["Sendable".to_string(), "Equatable".to_string(), "Hashable".to_string()], 0..=2),
            proptest::sample::subsequence(vec!["Sendable".to_string(), "Identifiable".to_string()], 0..=2),
            proptest::sample::subsequence(vec!["Equatable".to_string(), "Hashable".to_string()], 0..=2),
            proptest::sample::subsequence(vec!["id".to_string(), "http".to_string(), "url".to_string()], 0..=3),
            any::<bool>(),
            prop_oneof![1 => Just(None), 3 => Just(Some(None)), 3 => (0usize..=3).prop_map(|d| Some(Some(d)))],
            select(crate::ts::ALL_LANGS.to_vec()),
            any::<bool>(),
        )
            .prop_map(|(cli, file, mappings, swift_decorators, swift_constraints, codablevoid_constraints, go_acronyms, go_no_pointer_slice, locate, lang, decoy_in_cwd)| Case { cli, file, mappings, swift_decorators, swift_constraints, codablevoid_constraints, go_acronyms, go_no_pointer_slice, locate, lang, decoy_in_cwd })
            .boxed()
    }
    fn eval(&self, run: &Run, c: &Case, w: &mut Worker, counting: bool) -> Vec<Violation> {
        let mut out = vec![];
        let lang = c.lang;
        let root = cli::fresh_dir(&w.scratch, "c20");
        let proj = root.join("proj");
        cli::write_tree(&proj, &[("the-crate/src/lib.rs".into(), PROGRAM.as_bytes().to_vec())]);
        let mut cwd = root.clone();
        let mut args: Vec<String> = vec!["--lang".into(), lang.name().into()];
        for (s, v) in &c.cli {
            args.push(format!("--{s}"));
            args.push(v.clone());
        }
        match c.locate {
            None => {}
            Some(None) => {
                let p = root.join("elsewhere").join("my-config.toml");
                cli::write_tree(&root, &[("elsewhere/my-config.toml".into(), file_toml(c).into_bytes())]);
                args.push("-c".into());
                args.push(p.to_string_lossy().into_owned());
                if c.decoy_in_cwd {
                    // discoverable from the cwd by ancestor search; every setting differs from anything a case uses
                    let decoy = "[swift]\nprefix = \"Decoy\"\ndefault_decorators = [\"DecoyProtocol\"]\n[kotlin]\nprefix = \"Decoy\"\npackage = \"decoy.pkg\"\nmodule_name = \"decoymod\"\n[scala]\npackage = \"decoy.pkg\"\nmodule_name = \"decoymod\"\n[go]\npackage = \"decoypkg\"\nuppercase_acronyms = [\"WIDGET\"]\n";
                    cli::write_tree(&root, &[("typeshare.toml".into(), decoy.as_bytes().to_vec())]);
                    let d = root.join("workdir").join("deeper");
                    std::fs::create_dir_all(&d).unwrap();
                    cwd = d;
                }
            }
            Some(Some(depth)) => {
                // with the decoy flag the real file sits one level down and a file with other settings further out:
                // the search has to stop at the nearest one
                let base = if c.decoy_in_cwd { root.join("inner") } else { root.clone() };
                std::fs::create_dir_all(&base).unwrap();
                if c.decoy_in_cwd {
                    let decoy = "[swift]\nprefix = \"Decoy\"\ndefault_decorators = [\"DecoyProtocol\"]\n[kotlin]\nprefix = \"Decoy\"\npackage = \"decoy.pkg\"\nmodule_name = \"decoymod\"\n[scala]\npackage = \"decoy.pkg\"\nmodule_name = \"decoymod\"\n[go]\npackage = \"decoypkg\"\nuppercase_acronyms = [\"WIDGET\"]\n";
                    cli::write_tree(&root, &[("typeshare.toml".into(), decoy.as_bytes().to_vec())]);
                }
                cli::write_tree(&base, &[("typeshare.toml".into(), file_toml(c).into_bytes())]);
                let mut d = base.clone();
                for k in 0..depth {
                    d = d.join(format!("sub{k}"));
                }
                std::fs::create_dir_all(&d).unwrap();
                cwd = d;
            }
        }
        let outp = root.join(format!("out.{}", lang.ext()));
        args.push("-o".into());
        args.push(outp.to_string_lossy().into_owned());
        args.push(proj.to_string_lossy().into_owned());
        let both_differ = SETTINGS.iter().any(|s| c.cli.contains_key(*s) && c.file.contains_key(*s) && c.locate.is_some());
        if counting {
            run.label(&format!("c20/{}/locate={}", lang.short(), match c.locate { None => "no-file".to_string(), Some(None) => if c.decoy_in_cwd { "-c+decoy-in-cwd".to_string() } else { "-c".to_string() }, Some(Some(d)) => format!("ancestor{d}{}", if c.decoy_in_cwd { "+outer-decoy" } else { "" }) }));
            if both_differ || matches!(c.locate, Some(Some(_))) {
                run.nontrivial(hash_of(&(serde_json::to_string(c).unwrap_or_default(),)));
            }
            run.sample("config", 2, || json!({"lang": lang.name(), "args": args, "typeshare.toml": file_toml(c), "cwd": cwd.to_string_lossy()}));
        }
        let r = cli::run(&args, &cwd, &[], Duration::from_secs(15));
        // documented requirements that make a run fail legitimately
        let go_pkg = effective(c, "go-package");
        let scala_pkg = effective(c, "scala-package");
        let expect_fail = (lang == Lang::Go && go_pkg.is_empty()) || (lang == Lang::Scala && scala_pkg.is_empty());
        if !r.ok() {
            if !expect_fail && !r.panicked() && !r.timed_out {
                out.push(Violation::new(format!("run-failed/{}", lang.short()), format!("exit {:?}: {}", r.code, r.stderr.lines().last().unwrap_or(""))));
            }
            if counting {
                run.label(&format!("c20/failed/{}", if expect_fail { "expected(missing package)" } else { "other" }));
            }
            let _ = std::fs::remove_dir_all(&root);
            return out;
        }
        let text = std::fs::read_to_string(&outp).unwrap_or_default();
        let obs = match observe(lang, &text, w, false) {
            Ok(o) => o,
            Err(_) => {
                if counting {
                    run.label("c20/unobservable");
                }
                let _ = std::fs::remove_dir_all(&root);
                return out;
            }
        };
        let f = &obs.file;
        let class = |s: &str| -> String {
            let on_cli = c.cli.contains_key(s);
            let in_file = c.file.contains_key(s) && c.locate.is_some();
            format!("{}{}", if on_cli { "cli" } else { "nocli" }, if in_file { "+file" } else { "+nofile" })
        };
        let mut expect_eq = |setting: &str, what: &str, got: Option<String>, out: &mut Vec<Violation>| {
            let want = effective(c, setting);
            if let Some(got) = got {
                if got != want {
                    let rel = if Some(&got) == c.file.get(setting) && c.cli.contains_key(setting) {
                        "file-won"
                    } else if got == default_of(setting) {
                        "default-won"
                    } else if Some(&got) == c.cli.get(setting) {
                        "cli-won-unexpectedly"
                    } else {
                        "other"
                    };
                    out.push(Violation::new(format!("{}/{}/{}/{}", setting, class(setting), rel, lang.short()), format!("{}: {} should be {:?} (command line {:?}, file {:?}) but the generated code shows {:?}", lang.name(), what, want, c.cli.get(setting), if c.locate.is_some() { c.file.get(setting) } else { None }, got)));
                }
            }
        };
        let widget = f.decls.iter().find(|d| d.name.ends_with("Widget"));
        match lang {
            Lang::Swift => {
                expect_eq("swift-prefix", "type-name prefix", widget.map(|d| d.name.trim_end_matches("Widget").to_string()), &mut out);
                if let Some(d) = widget {
                    // default decorators: Codable first, then the configured ones
                    if c.locate.is_some() {
                        for dec in &c.swift_decorators {
                            if !d.decorators.contains(dec) {
                                out.push(Violation::new("swift.default_decorators/ignored".to_string(), format!("swift: default decorator {dec} missing from {:?}", d.decorators)));
                            }
                        }
                        // generic constraints: annotated parameter T gets Equatable + defaults, U only defaults
                        for (k, v) in &d.facts {
                            if let Some(p) = k.strip_prefix("constraint:") {
                                let have: Vec<&str> = v.split('&').collect();
                                for want in c.swift_constraints.iter() {
                                    if !have.contains(&want.as_str()) {
                                        out.push(Violation::new(format!("swift.default_generic_constraints/ignored/{}", if p == "T" { "annotated-parameter" } else { "plain-parameter" }), format!("swift: generic parameter {p} has constraints {v}, missing configured default {want}")));
                                    }
                                }
                                if p == "T" && !have.contains(&"Equatable") {
                                    out.push(Violation::new("swift.swiftGenericConstraints/ignored".to_string(), format!("swift: T lost its annotated constraint: {v}")));
                                }
                            }
                        }
                        if !c.codablevoid_constraints.is_empty() {
                            let line = text.lines().find(|l| l.contains("struct CodableVoid")).unwrap_or("");
                            for want in &c.codablevoid_constraints {
                                if !line.contains(want.as_str()) {
                                    out.push(Violation::new("swift.codablevoid_constraints/ignored".to_string(), format!("swift: CodableVoid line `{line}` lacks {want}")));
                                }
                            }
                        }
                    }
                }
            }
            Lang::Kotlin => {
                expect_eq("kotlin-prefix", "type-name prefix", widget.map(|d| d.name.trim_end_matches("Widget").to_string()), &mut out);
                // Kotlin prints a package line only when the package is non-empty
                expect_eq("java-package", "package line", Some(f.package.clone().unwrap_or_default()), &mut out);
            }
            Lang::Scala => {
                // `package a.b` + `package c { .. }` / `package object c`
                let last = text.lines().find_map(|l| l.trim().strip_prefix("package ").filter(|r| r.ends_with('{')).map(|r| r.trim_end_matches('{').trim().trim_start_matches("object ").to_string()));
                let full = match (&f.package, last) {
                    (Some(p), Some(l)) => format!("{p}.{l}"),
                    (None, Some(l)) => l,
                    (Some(p), None) => p.clone(),
                    (None, None) => String::new(),
                };
                // single-segment packages print no package lines at all (recorded under C10); compare when something was printed
                if !full.is_empty() {
                    expect_eq("scala-package", "package", Some(full), &mut out);
                }
            }
            Lang::Go => {
                expect_eq("go-package", "package line", f.package.clone(), &mut out);
                if c.locate.is_some() {
                    let acr = |s: &str| c.go_acronyms.iter().any(|a| a == s);
                    let want_card = if acr("id") { "IDCard" } else { "IdCard" };
                    if !f.decls.iter().any(|d| d.name == want_card) {
                        out.push(Violation::new("go.uppercase_acronyms/ignored/type-name".to_string(), format!("go: expected a type named {want_card}; found {:?}", f.decls.iter().map(|d| &d.name).collect::<Vec<_>>())));
                    }
                    // every configured acronym is applied, also when one name contains several of them
                    if let Some(d) = f.decls.iter().find(|d| d.name == want_card) {
                        if let Some(fl) = d.fields.iter().find(|x| x.key == "http_url") {
                            let want_field = format!("{}{}", if acr("http") { "HTTP" } else { "Http" }, if acr("url") { "URL" } else { "Url" });
                            if fl.ident != want_field {
                                out.push(Violation::new("go.uppercase_acronyms/ignored/field-with-two-acronyms".to_string(), format!("go: uppercase_acronyms = {:?}: field `http_url` should be named {want_field}, found {}", c.go_acronyms, fl.ident)));
                            }
                        }
                    }
                    if let Some(d) = f.decls.iter().find(|d| d.name == "Widget") {
                        if let Some(fl) = d.fields.iter().find(|x| x.key == "user_id") {
                            let want_field = if acr("id") { "UserID" } else { "UserId" };
                            if fl.ident != want_field {
                                out.push(Violation::new("go.uppercase_acronyms/ignored/field-name".to_string(), format!("go: uppercase_acronyms = {:?}: field `user_id` should be named {want_field}, found {}", c.go_acronyms, fl.ident)));
                            }
                        }
                    }
                    if let Some(d) = f.decls.iter().find(|d| d.name == "Widget") {
                        if let Some(fl) = d.fields.iter().find(|x| x.key == "maybe") {
                            let ptr = matches!(fl.ty, Some(OTy::Ptr(_)));
                            if ptr == c.go_no_pointer_slice {
                                out.push(Violation::new("go.no_pointer_slice/ignored".to_string(), format!("go: no_pointer_slice = {} but `maybe` is `{}`", c.go_no_pointer_slice, fl.ty_text)));
                            }
                        }
                    }
                }
            }
            _ => {}
        }
        // type mappings (file only)
        if let Some(d) = f.decls.iter().find(|d| d.name.ends_with("Widget")) {
            if let Some(fl) = d.fields.iter().find(|x| x.key == "ext") {
                let want_mapped = c.mappings && c.locate.is_some();
                let sec = match lang {
                    Lang::TypeScript => "typescript",
                    l => l.name(),
                };
                let mapped_name = format!("Mapped_{sec}");
                let got = fl.ty.as_ref().map(|t| t.show()).unwrap_or_default();
                let is_mapped = got == mapped_name;
                if want_mapped != is_mapped {
                    out.push(Violation::new(format!("{sec}.type_mappings/{}", if want_mapped { "ignored" } else { "applied-without-file" }), format!("{}: field ext has type `{got}`, mapping expected: {want_mapped}", lang.name())));
                }
            }
        }
        let _ = std::fs::remove_dir_all(&root);
        out
    }
}

/// -g / --generate-config: emitted TOML holds exactly the given options; reload equivalence; never overwrites
#[derive(Clone, Debug, Serialize, Deserialize)]
pub struct GenCase {
    pub cli: BTreeMap<String, String>,
    pub explicit_path: bool,
    pub preexisting: bool,
    pub lang: Lang,
}
pub struct C20Gen;
impl SubCheck for C20Gen {
    type Case = GenCase;
    fn name(&self) -> &'static str {
        "c20-generate-config"
    }
    fn strategy(&self, _tier: Tier) -> BoxedStrategy<GenCase> {
        (proptest::collection::vec((any::<bool>(), 0u8..3), SETTINGS.len()), any::<bool>(), prop_oneof![4 => Just(false), 1 => Just(true)], select(crate::ts::ALL_LANGS.to_vec()))
            .prop_map(|(v, explicit_path, preexisting, lang)| {
                let mut m = BTreeMap::new();
                for (s, (on, k)) in SETTINGS.iter().zip(v) {
                    if on {
                        m.insert(s.to_string(), value_for(s, "cli", k));
                    }
                }
                GenCase { cli: m, explicit_path, preexisting, lang }
            })
            .boxed()
    }
    fn eval(&self, run: &Run, c: &GenCase, w: &mut Worker, counting: bool) -> Vec<Violation> {
        let mut out = vec![];
        let root = cli::fresh_dir(&w.scratch, "c20g");
        let proj = root.join("proj");
        cli::write_tree(&proj, &[("the-crate/src/lib.rs".into(), PROGRAM.as_bytes().to_vec())]);
        let cfg_path = if c.explicit_path { root.join("conf").join("generated.toml") } else { root.join("typeshare.toml") };
        std::fs::create_dir_all(cfg_path.parent().unwrap()).unwrap();
        let old = b"# precious existing file\n[swift]\nprefix = \"Keep\"\n".to_vec();
        if c.preexisting {
            std::fs::write(&cfg_path, &old).unwrap();
        }
        let mut opts: Vec<String> = vec![];
        for (s, v) in &c.cli {
            opts.push(format!("--{s}"));
            opts.push(v.clone());
        }
        let mut args: Vec<String> = vec!["-g".into()];
        args.extend(opts.iter().cloned());
        if c.explicit_path {
            args.push("-c".into());
            args.push(cfg_path.to_string_lossy().into_owned());
        }
        args.push(proj.to_string_lossy().into_owned());
        if counting {
            run.label(&format!("c20g/{}/{}", if c.explicit_path { "-c" } else { "default-path" }, if c.preexisting { "preexisting" } else { "fresh" }));
            run.nontrivial(hash_of(&serde_json::to_string(c).unwrap_or_default()));
        }
        let r = cli::run(&args, &root, &[], Duration::from_secs(15));
        if c.preexisting {
            let now = std::fs::read(&cfg_path).unwrap_or_default();
            if now != old {
                out.push(Violation::new("generate-config/overwrote".to_string(), "an existing configuration file was modified by -g".to_string()));
            }
            if r.code == Some(0) {
                out.push(Violation::new("generate-config/exit0-on-existing".to_string(), "-g reported success although the file already existed".to_string()));
            }
            let _ = std::fs::remove_dir_all(&root);
            return out;
        }
        if !r.ok() {
            if !r.panicked() && !r.timed_out {
                out.push(Violation::new("generate-config/failed".to_string(), format!("-g failed: exit {:?} {}", r.code, r.stderr.lines().last().unwrap_or(""))));
            }
            let _ = std::fs::remove_dir_all(&root);
            return out;
        }
        let text = std::fs::read_to_string(&cfg_path).unwrap_or_default();
        let parsed: Result<toml::Value, _> = text.parse::<toml::Value>();
        match parsed {
            Err(e) => out.push(Violation::new("generate-config/unparsable".to_string(), format!("emitted TOML does not parse: {e}"))),
            Ok(v) => {
                for s in SETTINGS {
                    let (sec, key) = toml_path(s);
                    let got = v.get(sec).and_then(|t| t.get(key)).and_then(|x| x.as_str()).unwrap_or("").to_string();
                    let want = c.cli.get(s).cloned().unwrap_or_default();
                    if got != want {
                        out.push(Violation::new(format!("generate-config/{}/roundtrip-differs", s), format!("-g with options {:?}: emitted {sec}.{key} = {:?}, expected {:?}", c.cli, got, want)));
                    }
                }
            }
        }
        // reload equivalence: generation with -c emitted.toml and no options == generation with the options and no file
        let lang = c.lang;
        let a_out = root.join(format!("a.{}", lang.ext()));
        let b_out = root.join(format!("b.{}", lang.ext()));
        let isolated = cli::fresh_dir(&root, "isolated_cwd");
        let mut a: Vec<String> = vec!["--lang".into(), lang.name().into(), "-c".into(), cfg_path.to_string_lossy().into_owned(), "-o".into(), a_out.to_string_lossy().into_owned(), proj.to_string_lossy().into_owned()];
        let ra = cli::run(&a, &isolated, &[], Duration::from_secs(15));
        // the default-path case would find root/typeshare.toml by ancestor search: run the option-only variant from outside
        let outside = cli::fresh_dir(&w.scratch, "c20g_outside");
        let mut b: Vec<String> = vec!["--lang".into(), lang.name().into()];
        b.extend(opts.iter().cloned());
        b.extend(["-o".into(), outside.join(format!("b.{}", lang.ext())).to_string_lossy().into_owned(), proj.to_string_lossy().into_owned()]);
        let rb = cli::run(&b, &outside, &[], Duration::from_secs(15));
        let _ = &mut a;
        if ra.ok() != rb.ok() {
            out.push(Violation::new(format!("generate-config/reload-outcome-differs/{}", lang.short()), format!("with the emitted file: exit {:?}; with the same options: exit {:?}", ra.code, rb.code)));
        } else if ra.ok() {
            let ta = std::fs::read(&a_out).unwrap_or_default();
            let tb = std::fs::read(outside.join(format!("b.{}", lang.ext()))).unwrap_or_default();
            if ta != tb {
                out.push(Violation::new(format!("generate-config/reload-output-differs/{}", lang.short()), "generation from the emitted configuration differs from generation with the same options".to_string()));
            }
        }
        let _ = b_out;
        let _ = std::fs::remove_dir_all(&root);
        let _ = std::fs::remove_dir_all(&outside);
        out
    }
}

pub fn run(run: &Run) {
    run.set_rule("precedence: the full matrix {absent, present} on the command line x {absent, present} in the file for swift-prefix, kotlin-prefix, java-package, module-name, scala-package, scala-module-name, go-package with distinct values on each side, plus file-only tables (type_mappings for all six languages, default_decorators, default_generic_constraints, codablevoid_constraints, uppercase_acronyms, no_pointer_slice); the file is absent, given by -c, or discovered by ancestor search from a cwd 0-3 levels below it; one language per case on a fixed program that makes every setting visible (generic struct with annotated constraint, unit field, Option<Vec<u8>>, mapped foreign type, acronym names). Oracle: effective = command line, else file, else default, observed in the generated code through the observers. generate-config: -g with random option subsets, explicit or default path, fresh or pre-existing target: the emitted TOML holds exactly the given options over defaults; generating with the emitted file and no options equals generating with the options and no file (byte for byte); an existing file is left untouched with a non-zero exit. Non-trivial = a setting present on both sides, or ancestor discovery; every generate-config case.");
    run.assume("Kotlin/Scala module_name has no effect on generated code: it is observed only through -g");
    if !cli::bin_available() {
        run.inconclusive("typeshare binary not built");
        return;
    }
    replay_regress(run, &C20);
    search(run, &C20, run.tier.pick(1500, 20_000));
    replay_regress(run, &C20Gen);
    search(run, &C20Gen, run.tier.pick(300, 4_000));
}

pub fn replay(run: &Run, case: &serde_json::Value) -> Result<Vec<Violation>, String> {
    if case.get("explicit_path").is_some() {
        replay_case(run, &C20Gen, case)
    } else {
        replay_case(run, &C20, case)
    }
}
