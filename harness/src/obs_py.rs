//! Python observer: CPython (pyworker/worker.py) parses, tokenises and executes the module; this turns its JSON into the IR.
use crate::obs::*;
use serde_json::Value;

pub struct PyFacts {
    pub file: OFile,
    pub raw: Value,
    /// (type, name, line) of an exception raised while executing the module against the stub pydantic
    pub exec_error: Option<(String, String, usize, Option<String>)>,
}

pub fn ty_of(v: &Value) -> OTy {
    match v.get("k").and_then(|k| k.as_str()) {
        Some("name") => OTy::name(v["id"].as_str().unwrap_or("?")),
        Some("sub") => {
            let base = ty_of(&v["base"]);
            let args: Vec<OTy> = v["args"].as_array().map(|a| a.iter().map(ty_of).collect()).unwrap_or_default();
            let bname = match &base {
                OTy::Name { base, .. } => base.clone(),
                o => o.show(),
            };
            match (bname.as_str(), args.len()) {
                ("List", 1) | ("list", 1) | ("Sequence", 1) => OTy::Seq(Box::new(args.into_iter().next().unwrap())),
                ("Dict", 2) | ("dict", 2) | ("Mapping", 2) => {
                    let mut it = args.into_iter();
                    let k = it.next().unwrap();
                    OTy::Map(Box::new(k), Box::new(it.next().unwrap()))
                }
                ("Optional", 1) => OTy::Opt(Box::new(args.into_iter().next().unwrap())),
                ("Annotated", n) if n >= 1 => args.into_iter().next().unwrap(),
                _ => OTy::Name { base: bname, args },
            }
        }
        Some("call") => OTy::Other("call".into()),
        Some("union") => OTy::Other("union".into()),
        _ => OTy::Other(v.get("src").and_then(|s| s.as_str()).unwrap_or("?").to_string()),
    }
}

fn field_of(f: &Value) -> OField {
    let mut o = OField::default();
    o.ident = f["name"].as_str().unwrap_or("").to_string();
    o.key = o.ident.clone();
    o.line = f["line"].as_u64().unwrap_or(0) as usize;
    o.ty_text = f["ann_src"].as_str().unwrap_or("").to_string();
    let t = ty_of(&f["ann"]);
    // Annotated[Optional[..]] already unwrapped by ty_of
    if matches!(t, OTy::Opt(_)) {
        o.opt.push("Optional".into());
    }
    o.ty = Some(t);
    if let Some(kw) = f.get("field_kw").and_then(|k| k.as_object()) {
        if let Some(a) = kw.get("alias").and_then(|a| a.as_str()) {
            o.key = a.to_string();
            o.bound = true;
        }
        if let Some(d) = kw.get("default") {
            if d.as_str() == Some("None") {
                o.opt.push("default=None".into());
            } else {
                o.opt.push("default=<expr>".into());
            }
        }
    } else if let Some(vs) = f.get("value_src").and_then(|v| v.as_str()) {
        if vs == "None" {
            o.opt.push("default=None".into());
        }
    }
    o
}

pub fn analyze(py: &mut crate::py::PyWorker, src: &str, exec: bool) -> Result<PyFacts, GrammarError> {
    let raw = py.call(&serde_json::json!({"op": "analyze", "src": src, "exec": exec}));
    if raw.is_null() {
        return Err(GrammarError { construct: "worker".into(), msg: "python worker gave no answer".into(), line: 0 });
    }
    if raw["ok"].as_bool() != Some(true) {
        if let Some(se) = raw.get("syntax_error") {
            let text = se["text"].as_str().unwrap_or("");
            const PYKW: &[&str] = &["False", "None", "True", "and", "as", "assert", "async", "await", "break", "class", "continue", "def", "del", "elif", "else", "except", "finally", "for", "from", "global", "if", "import", "in", "is", "lambda", "nonlocal", "not", "or", "pass", "raise", "return", "try", "while", "with", "yield"];
            let first_word: String = text.trim_start().chars().take_while(|c| c.is_alphanumeric() || *c == '_').collect();
            let construct = if PYKW.contains(&first_word.as_str()) && text.trim_start()[first_word.len()..].trim_start().starts_with(':') {
                if text.contains("Literal[") { "py-syntax:keyword-as-tag-attribute" } else { "py-syntax:keyword-as-attribute" }
            } else {
                "py-syntax:other"
            };
            return Err(GrammarError {
                construct: construct.into(),
                msg: format!("SyntaxError: {} | {}", se["msg"].as_str().unwrap_or(""), se["text"].as_str().unwrap_or("").trim_end()),
                line: se["line"].as_u64().unwrap_or(0) as usize,
            });
        }
        return Err(GrammarError { construct: "worker".into(), msg: format!("worker error: {}", raw), line: 0 });
    }
    let mut f = OFile::default();
    for i in raw["imports"].as_array().into_iter().flatten() {
        f.imports.push(OImport {
            module: i["module"].as_str().unwrap_or("").to_string(),
            names: i["names"].as_array().map(|a| a.iter().filter_map(|n| n.as_str().map(|s| s.to_string())).collect()).unwrap_or_default(),
        });
    }
    for fu in raw["funcs"].as_array().into_iter().flatten() {
        f.helper_defs.push(fu["name"].as_str().unwrap_or("").to_string());
    }
    let classes: Vec<&Value> = raw["classes"].as_array().map(|a| a.iter().collect()).unwrap_or_default();
    let assigns: Vec<&Value> = raw["assigns"].as_array().map(|a| a.iter().collect()).unwrap_or_default();
    let class_by_name = |n: &str| classes.iter().find(|c| c["name"].as_str() == Some(n)).copied();
    let is_str_enum = |c: &Value| {
        let b: Vec<String> = c["bases"].as_array().map(|a| a.iter().map(|x| ty_of(x).show()).collect()).unwrap_or_default();
        b.iter().any(|x| x == "Enum")
    };
    // literal-tag field of a variant class: (field name, enum class, member)
    let literal_tag = |c: &Value| -> Option<(String, String, String, usize)> {
        for (idx, fl) in c["fields"].as_array().into_iter().flatten().enumerate() {
            if let OTy::Name { base, args } = ty_of(&fl["ann"]) {
                if base == "Literal" && args.len() == 1 {
                    if let OTy::Name { base: m, .. } = &args[0] {
                        if let Some((cls, mem)) = m.rsplit_once('.') {
                            // the wire key is the pydantic alias when the attribute had to be renamed (keyword keys)
                            let key = fl["field_kw"]["alias"].as_str().unwrap_or_else(|| fl["name"].as_str().unwrap_or(""));
                            return Some((key.to_string(), cls.to_string(), mem.to_string(), idx));
                        }
                    }
                }
            }
        }
        None
    };
    let mut consumed: Vec<String> = vec![]; // classes folded into an algebraic enum
    let mut decls: Vec<ODecl> = vec![];
    for a in &assigns {
        let name = a["name"].as_str().unwrap_or("").to_string();
        let line = a["line"].as_u64().unwrap_or(0) as usize;
        let kind = a["target_kind"].as_str().unwrap_or("");
        if kind == "annotated" {
            let mut d = ODecl::new(OKind::Const, &name, line);
            d.const_ty = Some(ty_of(&a["ann"]));
            d.const_value = a["value_src"].as_str().map(|s| s.to_string());
            decls.push(d);
            continue;
        }
        let val = ty_of(&a["value"]);
        // TypeVar
        if a["value"]["k"].as_str() == Some("call") && ty_of(&a["value"]["func"]).show() == "TypeVar" {
            f.helper_defs.push(name.clone());
            continue;
        }
        // union / single variant class => algebraic enum
        let members: Vec<String> = match &val {
            OTy::Name { base, args } if base == "Union" => args.iter().map(|m| m.show()).collect(),
            OTy::Name { base, args } if args.is_empty() => vec![base.clone()],
            _ => vec![],
        };
        let all_variant_classes = !members.is_empty() && members.iter().all(|m| class_by_name(m).and_then(|c| literal_tag(c)).is_some());
        if kind == "name" && all_variant_classes {
            let mut d = ODecl::new(OKind::AlgEnum, &name, line);
            for m in &members {
                let c = class_by_name(m).unwrap();
                let (tag_field, enum_cls, member, tag_idx) = literal_tag(c).unwrap();
                let mut case = OCase::new(m, c["line"].as_u64().unwrap_or(0) as usize);
                case.tag.push(("python.variant-class".into(), tag_field));
                // wire value: look up <enum_cls>.<member>
                match class_by_name(&enum_cls) {
                    Some(ec) => {
                        if !consumed.contains(&enum_cls) {
                            consumed.push(enum_cls.clone());
                        }
                        let hits: Vec<&Value> = ec["members"].as_array().into_iter().flatten().filter(|x| x["name"].as_str() == Some(member.as_str())).collect();
                        case.facts.push(("types-members".into(), hits.len().to_string()));
                        if let Some(h) = hits.last() {
                            if let Some(s) = h["const"].as_str() {
                                case.wire.push(("python.types-member".into(), s.to_string()));
                            }
                        }
                    }
                    None => case.facts.push(("types-class-missing".into(), enum_cls.clone())),
                }
                // default value must be the same member
                let fl = &c["fields"][tag_idx];
                let default_src = if fl.get("field_kw").is_some() { fl["field_kw_src"]["default"].as_str() } else { fl["value_src"].as_str() };
                if let Some(vs) = default_src {
                    case.facts.push(("tag-default".into(), vs.to_string()));
                    case.facts.push(("tag-literal".into(), format!("{enum_cls}.{member}")));
                }
                let others: Vec<&Value> = c["fields"].as_array().into_iter().flatten().enumerate().filter(|(i, _)| *i != tag_idx).map(|(_, x)| x).collect();
                if let Some(cf) = others.first() {
                    case.content.push(("python.variant-class".into(), cf["field_kw"]["alias"].as_str().unwrap_or_else(|| cf["name"].as_str().unwrap_or("")).to_string()));
                    let t = ty_of(&cf["ann"]);
                    case.payload_optional = matches!(t, OTy::Opt(_));
                    case.payload = Some(t);
                }
                if others.len() > 1 {
                    case.facts.push(("extra-fields".into(), others.len().to_string()));
                }
                consumed.push(m.clone());
                d.cases.push(case);
            }
            // the <Enum>Types class lists every wire name once
            decls.push(d);
            continue;
        }
        let mut d = ODecl::new(OKind::Alias, &name, line);
        d.target_optional = matches!(val, OTy::Opt(_));
        d.target = Some(val);
        if kind == "subscript" {
            d.facts.push(("subscript-target".into(), "1".into()));
        }
        decls.push(d);
    }
    for c in &classes {
        let name = c["name"].as_str().unwrap_or("").to_string();
        let line = c["line"].as_u64().unwrap_or(0) as usize;
        if consumed.contains(&name) {
            let mut d = ODecl::new(OKind::Helper, &name, line);
            for fl in c["fields"].as_array().into_iter().flatten() {
                d.fields.push(field_of(fl));
            }
            for m in c["members"].as_array().into_iter().flatten() {
                let mut case = OCase::new(m["name"].as_str().unwrap_or(""), m["line"].as_u64().unwrap_or(0) as usize);
                if let Some(s) = m["const"].as_str() {
                    case.wire.push(("python.enum-member".into(), s.to_string()));
                }
                d.cases.push(case);
            }
            decls.push(d);
            continue;
        }
        if is_str_enum(c) {
            let mut d = ODecl::new(OKind::UnitEnum, &name, line);
            for m in c["members"].as_array().into_iter().flatten() {
                let mut case = OCase::new(m["name"].as_str().unwrap_or(""), m["line"].as_u64().unwrap_or(0) as usize);
                if let Some(s) = m["const"].as_str() {
                    case.wire.push(("python.enum-member".into(), s.to_string()));
                }
                d.cases.push(case);
            }
            decls.push(d);
            continue;
        }
        let mut d = ODecl::new(OKind::Struct, &name, line);
        for b in c["bases"].as_array().into_iter().flatten() {
            let t = ty_of(b);
            if let OTy::Name { base, args } = &t {
                if base == "Generic" {
                    d.generics = args.iter().map(|a| a.show()).collect();
                }
            }
            d.refs.push(("base".into(), t));
        }
        for fl in c["fields"].as_array().into_iter().flatten() {
            d.fields.push(field_of(fl));
        }
        for m in c["members"].as_array().into_iter().flatten() {
            d.facts.push(("member".into(), m["name"].as_str().unwrap_or("").to_string()));
        }
        if c["has_pass"].as_bool() == Some(true) {
            d.facts.push(("pass".into(), "1".into()));
        }
        decls.push(d);
    }
    decls.sort_by_key(|d| d.line);
    f.decls = decls;
    let exec_error = raw.get("exec_error").and_then(|e| {
        if e.is_null() {
            None
        } else {
            Some((
                e["type"].as_str().unwrap_or("").to_string(),
                e["msg"].as_str().unwrap_or("").to_string(),
                e["line"].as_u64().unwrap_or(0) as usize,
                e["name"].as_str().map(|s| s.to_string()),
            ))
        }
    });
    Ok(PyFacts { file: f.finish(), raw, exec_error })
}
