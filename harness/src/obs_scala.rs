//! Scala observer.
use crate::lex::{Tok, TokKind};
use crate::obs::*;

fn dotted(c: &mut Cur) -> PResult<String> {
    let mut s = c.ident()?.text.clone();
    while c.is_p(".") {
        c.next();
        s.push('.');
        s.push_str(&c.ident()?.text);
    }
    Ok(s)
}

pub fn type_expr(c: &mut Cur) -> PResult<OTy> {
    let base = dotted(c)?;
    let mut args = vec![];
    if c.is_p("[") && !c.peek().map(|t| t.nl_before).unwrap_or(false) {
        c.next();
        loop {
            args.push(type_expr(c)?);
            if !c.eat_p(",") {
                break;
            }
        }
        c.expect_p("]")?;
    }
    Ok(match (base.as_str(), args.len()) {
        ("Vector", 1) | ("List", 1) | ("Seq", 1) | ("Array", 1) => OTy::Seq(Box::new(args.into_iter().next().unwrap())),
        ("Map", 2) => {
            let mut it = args.into_iter();
            let k = it.next().unwrap();
            OTy::Map(Box::new(k), Box::new(it.next().unwrap()))
        }
        ("Option", 1) => OTy::Opt(Box::new(args.into_iter().next().unwrap())),
        _ => OTy::Name { base, args },
    })
}

fn generics_decl(c: &mut Cur) -> PResult<Vec<String>> {
    let mut g = vec![];
    if c.is_p("[") {
        c.next();
        loop {
            g.push(c.ident()?.text.clone());
            if !c.eat_p(",") {
                break;
            }
        }
        c.expect_p("]")?;
    }
    Ok(g)
}

fn params(c: &mut Cur) -> PResult<Vec<OField>> {
    c.expect_p("(")?;
    let mut out = vec![];
    while !c.is_p(")") {
        if c.eof() {
            return c.err("unclosed `(`");
        }
        let mut f = OField::default();
        f.line = c.line();
        if c.is_id("val") && !c.is_p_at(1, ":") {
            c.next();
        }
        let id = c.ident()?;
        f.ident = id.text.clone();
        f.escaped = id.escaped;
        f.key = f.ident.clone();
        c.expect_p(":")?;
        let start = c.i;
        let t = type_expr(c)?;
        f.ty_text = c.t[start..c.i].iter().map(|t| t.text.clone()).collect::<Vec<_>>().join("");
        if matches!(t, OTy::Opt(_)) {
            f.opt.push("Option".into());
        }
        f.ty = Some(t);
        if c.eat_p("=") {
            match c.next() {
                Some(t) if t.is_id("None") => f.opt.push("= None".into()),
                Some(t) if t.is_id("_") || t.is_p("_") => f.opt.push("= _".into()),
                Some(_) => f.opt.push("= <expr>".into()),
                None => return c.err("expected a default value"),
            }
        }
        out.push(f);
        if !c.eat_p(",") {
            break;
        }
    }
    c.expect_p(")")?;
    Ok(out)
}

/// `{ val serialName: String = "w" }` -> w
fn serial_name_body(c: &mut Cur) -> PResult<Option<String>> {
    if !c.is_p("{") {
        return Ok(None);
    }
    let body = c.skip_group()?;
    for (i, t) in body.iter().enumerate() {
        if t.is_id("serialName") {
            if let Some(s) = body[i..].iter().find(|t| t.kind == TokKind::Str) {
                return Ok(Some(s.text.clone()));
            }
        }
    }
    Ok(None)
}

fn body(c: &mut Cur, f: &mut OFile, in_package_object: bool) -> PResult<()> {
    let mut pending_trait: Option<ODecl> = None;
    loop {
        if c.eof() || c.is_p("}") {
            break;
        }
        if !c.at_line_start() {
            return c.err("declaration must start on a new line");
        }
        if c.eat_id("type") {
            c.ctx = "type alias";
            let name = c.ident()?;
            let g = generics_decl(c)?;
            c.expect_p("=")?;
            let t = type_expr(c)?;
            let is_unsigned_helper = matches!(name.text.as_str(), "UByte" | "UShort" | "UInt" | "ULong") && g.is_empty();
            if is_unsigned_helper {
                f.helper_defs.push(name.text.clone());
                if let OTy::Name { base, .. } = &t {
                    f.helper_aliases.push((name.text.clone(), base.clone()));
                }
            } else {
                let mut d = ODecl::new(OKind::Alias, &name.text, name.line);
                d.generics = g;
                d.target = Some(t);
                if !in_package_object {
                    d.facts.push(("alias-outside-package-object".into(), "1".into()));
                }
                f.decls.push(d);
            }
        } else if c.is_id("case") && c.is_id_at(1, "class") {
            c.ctx = "case class";
            c.next();
            c.next();
            let name = c.ident()?;
            let mut d = ODecl::new(OKind::Struct, &name.text, name.line);
            d.generics = generics_decl(c)?;
            d.fields = params(c)?;
            f.decls.push(d);
        } else if c.eat_id("class") {
            c.ctx = "class";
            let name = c.ident()?;
            let mut d = ODecl::new(OKind::Struct, &name.text, name.line);
            d.generics = generics_decl(c)?;
            if c.eat_id("extends") {
                let _ = type_expr(c)?;
            }
            f.decls.push(d);
        } else if c.is_id("sealed") && c.is_id_at(1, "trait") {
            c.ctx = "sealed trait";
            c.next();
            c.next();
            let name = c.ident()?;
            let mut d = ODecl::new(OKind::UnitEnum, &name.text, name.line);
            d.generics = generics_decl(c)?;
            if c.is_p("{") {
                c.skip_group()?;
            }
            pending_trait = Some(d);
        } else if c.eat_id("object") {
            c.ctx = "companion object";
            let name = c.ident()?;
            let mut d = match pending_trait.take() {
                Some(d) => d,
                None => return c.err(format!("object `{}` without a preceding sealed trait", name.text)),
            };
            d.facts.push(("companion".into(), name.text.clone()));
            c.expect_p("{")?;
            while !c.is_p("}") {
                if c.eof() {
                    return c.err("unclosed object body");
                }
                if !c.at_line_start() {
                    return c.err("case must start on a new line");
                }
                c.expect_id("case")?;
                if c.eat_id("object") {
                    let id = c.ident()?;
                    let mut case = OCase::new(&id.text, id.line);
                    c.expect_id("extends")?;
                    case.parent = Some(type_expr(c)?);
                    if let Some(w) = serial_name_body(c)? {
                        case.wire.push(("scala.serialName".into(), w));
                    }
                    d.cases.push(case);
                } else if c.eat_id("class") {
                    let id = c.ident()?;
                    let mut case = OCase::new(&id.text, id.line);
                    let _g = generics_decl(c)?;
                    let ps = params(c)?;
                    if ps.len() != 1 {
                        return c.err("variant case class needs exactly one parameter");
                    }
                    case.content.push(("scala.param".into(), ps[0].ident.clone()));
                    case.payload_optional = matches!(ps[0].ty, Some(OTy::Opt(_)));
                    case.payload = ps[0].ty.clone();
                    d.kind = OKind::AlgEnum;
                    c.expect_id("extends")?;
                    case.parent = Some(type_expr(c)?);
                    if let Some(w) = serial_name_body(c)? {
                        case.wire.push(("scala.serialName".into(), w));
                    }
                    d.cases.push(case);
                } else {
                    return c.err("expected `case object` or `case class`");
                }
            }
            c.expect_p("}")?;
            f.decls.push(d);
        } else {
            return c.err("expected a declaration");
        }
    }
    if let Some(d) = pending_trait {
        return Err(GrammarError { construct: "sealed trait".into(), msg: format!("trait `{}` has no companion object", d.name), line: d.line });
    }
    Ok(())
}

pub fn parse(toks: &[Tok]) -> PResult<OFile> {
    let mut c = Cur::new(toks);
    let mut f = OFile::default();
    // `package a.b` clause (no braces)
    if c.is_id("package") && !c.is_id_at(1, "object") {
        // distinguish `package x {` (block) from `package a.b` (clause)
        let save = c.i;
        c.next();
        let p = dotted(&mut c)?;
        if c.is_p("{") {
            c.i = save;
        } else {
            f.package = Some(p);
        }
    }
    while !c.eof() {
        c.ctx = "top-level";
        if c.is_id("package") && c.is_id_at(1, "object") {
            c.next();
            c.next();
            let _n = c.ident()?;
            c.expect_p("{")?;
            body(&mut c, &mut f, true)?;
            c.expect_p("}")?;
        } else if c.is_id("package") {
            c.next();
            let _n = dotted(&mut c)?;
            c.expect_p("{")?;
            body(&mut c, &mut f, false)?;
            c.expect_p("}")?;
        } else if c.is_p("}") {
            return c.err("unmatched `}` at top level");
        } else {
            body(&mut c, &mut f, false)?;
        }
    }
    Ok(f.finish())
}
