//! C15 — documentation text is carried only inside comments of the generated code.
use crate::common::*;
use crate::lex;
use crate::model::*;
use crate::prog::*;
use crate::ts::{self, Cfg, Lang, Outcome, ALL_LANGS};
use proptest::prelude::*;
use proptest::sample::select;
use serde::{Deserialize, Serialize};
use serde_json::json;

pub const SENTINEL: &str = "ZQ17X";

#[derive(Clone, Copy, Debug, PartialEq, Eq, Hash, Serialize, Deserialize)]
pub enum DocForm {
    Line,
    Block,
    Attr,
}

/// one doc string: pieces of text, a sentinel follows every piece
#[derive(Clone, Debug, Serialize, Deserialize, PartialEq, Eq, Hash)]
pub struct DocSpec {
    pub form: DocForm,
    pub pieces: Vec<String>,
}

#[derive(Clone, Debug, Serialize, Deserialize)]
pub struct Case {
    /// docs per position: struct, field, unit enum, unit variant, tagged enum, tagged variant, struct-variant field, alias
    pub docs: Vec<Vec<DocSpec>>,
    pub cfg: Cfg,
}

pub const POSITIONS: [&str; 10] = ["struct", "field", "unit-enum", "unit-variant", "tagged-enum", "tagged-variant", "variant-field", "alias", "inline-newtype", "redacted-struct"];

/// terminator-class hazards: at most one kind per doc string (so that signatures name one cause)
const HAZARDS: [(&str, &str); 13] = [("cr-inside-terminator", "*\r/"), ("cr-inside-terminator", "\"\r\"\""), ("cr-and-lf", "\r"), ("quote-run", "\"\"\"\""), ("quote-run", "\"\"\"\"\""), ("carriage-return", "\r"), ("newline", "\n"), ("block-end", "*/"), ("triple-dquote", "\"\"\""), ("backslash", "\\"), ("trailing-backslash", "\\"), ("newline-crlf", "\r\n"), ("newline-mixed", "\r\n")];
const BENIGN: [&str; 10] = ["plain words", "//", "#", "`", "\"", "'''", "/*", "x = 1;", "}", "<T>"];

fn hazard_of(d: &DocSpec) -> &'static str {
    let last = d.pieces.last().map(|s| s.as_str()).unwrap_or("");
    if d.pieces.iter().any(|p| p.contains("*\r/") || p.contains("\"\r\"\"")) {
        return "cr-inside-terminator";
    }
    if d.pieces.iter().any(|p| p.replace("\r\n", "").contains('\r')) {
        // a lone CR and, elsewhere in the same string, a LF
        return if d.pieces.iter().any(|p| p.replace("\r\n", "").contains('\n')) { "cr-and-lf" } else { "carriage-return" };
    }
    let crlf = d.pieces.iter().any(|p| p.contains("\r\n"));
    let bare_lf = d.pieces.iter().any(|p| p.replace("\r\n", "").contains('\n'));
    if crlf {
        return if bare_lf { "newline-mixed" } else { "newline-crlf" };
    }
    for p in &d.pieces {
        if p.contains('\n') {
            return "newline";
        }
        if p.contains("*/") {
            return "block-end";
        }
        if p.contains("\"\"\"\"") {
            return "quote-run";
        }
        if p.contains("\"\"\"") {
            return "triple-dquote";
        }
    }
    if last.ends_with('\\') {
        return "trailing-backslash";
    }
    if d.pieces.iter().any(|p| p.contains('\\')) {
        return "backslash";
    }
    "benign"
}

fn doc_text(d: &DocSpec, id: usize) -> String {
    // " piece ZQ17X<id>a piece ZQ17X<id>b ..." ; a trailing-backslash doc ends with the backslash piece (no sentinel after it)
    let mut s = String::from(" ");
    let n = d.pieces.len();
    for (k, p) in d.pieces.iter().enumerate() {
        s.push_str(p);
        let trailing = k + 1 == n && p.ends_with('\\') && hazard_of(d) == "trailing-backslash";
        if !trailing {
            s.push(' ');
            s.push_str(&format!("{SENTINEL}{id}x{k}"));
            s.push(' ');
        }
    }
    s
}

fn to_doc(d: &DocSpec, id: usize) -> Doc {
    let t = doc_text(d, id);
    match d.form {
        DocForm::Line => Doc::Line(t),
        DocForm::Block => Doc::Block(t),
        DocForm::Attr => Doc::Attr(t),
    }
}

fn doc_strategy() -> BoxedStrategy<DocSpec> {
    let benign = select(BENIGN.to_vec()).prop_map(|s| s.to_string());
    let form = prop_oneof![Just(DocForm::Line), Just(DocForm::Block), Just(DocForm::Attr)];
    (form, proptest::collection::vec(benign, 0..3), prop_oneof![2 => Just(None), 5 => (0usize..HAZARDS.len()).prop_map(Some)], 0usize..3)
        .prop_map(|(form, mut pieces, hz, at)| {
            if let Some(h) = hz {
                let (name, text) = HAZARDS[h];
                // respect the source syntax: `///` cannot hold a newline, `/** */` cannot hold `*/` (and nests `/*`)
                let ok = match form {
                    DocForm::Line => !name.starts_with("newline") && name != "carriage-return" && name != "cr-and-lf" && name != "cr-inside-terminator",
                    // a carriage return cannot be written inside a doc comment (rustc rejects a bare CR there)
                    DocForm::Block => name != "block-end" && name != "newline-crlf" && name != "newline-mixed" && name != "carriage-return" && name != "cr-and-lf" && name != "cr-inside-terminator",
                    DocForm::Attr => true,
                };
                if ok {
                    if name == "trailing-backslash" {
                        pieces.push(text.to_string());
                    } else {
                        let at = at.min(pieces.len());
                        pieces.insert(at, text.to_string());
                        if name == "cr-and-lf" {
                            // the LF after the CR, or before it
                            if at % 2 == 0 {
                                pieces.push("\n".to_string());
                            } else {
                                pieces.insert(0, "\n".to_string());
                            }
                            pieces.push("tail".into());
                        }
                        if name == "newline-mixed" {
                            // one doc string with both kinds of line break, in either order
                            if at % 2 == 0 {
                                pieces.push("\n".to_string());
                            } else {
                                pieces.insert(0, "\n".to_string());
                            }
                            pieces.push("tail".into());
                        }
                        if name == "backslash" && at + 1 == pieces.len() {
                            pieces.push("tail".into());
                        }
                    }
                }
            }
            if form == DocForm::Block {
                pieces.retain(|p| p != "/*");
            }
            if pieces.is_empty() {
                pieces.push("plain words".into());
            }
            DocSpec { form, pieces }
        })
        .boxed()
}

fn build_items(case: &Case) -> (Vec<Item>, Vec<(usize, usize, DocSpec)>) {
    // returns items and the list (doc id, position index, spec)
    let mut ids: Vec<(usize, usize, DocSpec)> = vec![];
    let mut next = 0usize;
    let mut mk = |pos: usize, ids: &mut Vec<(usize, usize, DocSpec)>| -> Vec<Doc> {
        case.docs
            .get(pos)
            .map(|v| {
                let mut docs: Vec<Doc> = v
                    .iter()
                    .map(|d| {
                        let id = next;
                        next += 1;
                        ids.push((id, pos, d.clone()));
                        to_doc(d, id)
                    })
                    .collect();
                // attributes and doc lines may be interleaved in the source: every doc line still belongs to the item
                if docs.len() >= 2 && (v[0].pieces.len() + pos) % 2 == 0 {
                    docs.insert(1, Doc::NonDoc(["allow(dead_code)", "doc(hidden)", "allow(clippy::all)"][(v[0].pieces.len() + pos / 2) % 3].to_string()));
                } else if docs.len() == 1 && (v[0].pieces.len() + pos) % 5 == 0 {
                    docs.insert(0, Doc::NonDoc("doc(hidden)".to_string()));
                }
                docs
            })
            .unwrap_or_default()
    };
    let mut f1 = Field::new("first_field", Ty::Prim(Prim::String));
    let mut s = Item::new("DocStruct", Kind::Struct { shape: Shape::Named(vec![]), rename_all: None });
    s.docs = mk(0, &mut ids);
    f1.docs = mk(1, &mut ids);
    s.kind = Kind::Struct { shape: Shape::Named(vec![f1, Field::new("second_field", Ty::Prim(Prim::I32))]), rename_all: None };
    let mut ue = Item::new("DocUnitEnum", Kind::Enum { variants: vec![], rename_all: None, tag: None, content: None });
    ue.docs = mk(2, &mut ids);
    let mut uv = Variant::unit("First");
    uv.docs = mk(3, &mut ids);
    ue.kind = Kind::Enum { variants: vec![uv, Variant::unit("Second")], rename_all: None, tag: None, content: None };
    let mut te = Item::new("DocTagged", Kind::Enum { variants: vec![], rename_all: None, tag: None, content: None });
    te.docs = mk(4, &mut ids);
    let mut tv = Variant::unit("Data");
    tv.payload = Payload::Newtype(Ty::Prim(Prim::String));
    tv.docs = mk(5, &mut ids);
    let mut vf = Field::new("inner_field", Ty::Prim(Prim::Bool));
    vf.docs = mk(6, &mut ids);
    let mut sv = Variant::unit("Shape");
    sv.payload = Payload::Struct { fields: vec![vf], rename_all: None };
    te.kind = Kind::Enum { variants: vec![tv, sv, Variant::unit("Nothing")], rename_all: None, tag: Some("type".into()), content: Some("content".into()) };
    let mut al = Item::new("DocAlias", Kind::Alias { ty: Ty::Vec(Box::new(Ty::Prim(Prim::String))) });
    al.docs = mk(7, &mut ids);
    // decorated forms take other code paths in some back ends (Kotlin value class, redacted toString)
    let mut inl = Item::new("DocInline", Kind::Struct { shape: Shape::Newtype(Ty::Prim(Prim::String)), rename_all: None });
    inl.decor.kotlin_inline = true;
    inl.docs = mk(8, &mut ids);
    let mut red = Item::new("DocRedacted", Kind::Struct { shape: Shape::Named(vec![Field::new("secret", Ty::Prim(Prim::String))]), rename_all: None });
    red.decor.redacted = true;
    red.decor.swift = vec!["Equatable".into()];
    red.docs = mk(9, &mut ids);
    (vec![s, ue, te, al, inl, red], ids)
}

/// byte spans of comment / docstring tokens in the generated text
fn comment_spans(lang: Lang, text: &str, w: &mut Worker) -> Result<Vec<(usize, usize)>, String> {
    if lang == Lang::Python {
        let raw = w.py().call(&json!({"op": "analyze", "src": text, "exec": false}));
        if raw["ok"].as_bool() != Some(true) {
            return Err(format!("CPython cannot parse the module: {}", raw["syntax_error"]));
        }
        if !raw["tokenize_error"].is_null() {
            return Err(format!("CPython cannot tokenise the module: {}", raw["tokenize_error"]));
        }
        // char offsets -> byte offsets
        let idx: Vec<usize> = text.char_indices().map(|(b, _)| b).chain(std::iter::once(text.len())).collect();
        let conv = |c: u64| -> usize { idx.get(c as usize).copied().unwrap_or(text.len()) };
        let mut spans = vec![];
        for s in raw["spans"].as_array().into_iter().flatten() {
            if s["t"].as_str() == Some("comment") {
                spans.push((conv(s["s"].as_u64().unwrap_or(0)), conv(s["e"].as_u64().unwrap_or(0))));
            }
        }
        for d in raw["docstrings"].as_array().into_iter().flatten() {
            spans.push((conv(d["s"].as_u64().unwrap_or(0)), conv(d["e"].as_u64().unwrap_or(0))));
        }
        return Ok(spans);
    }
    let toks = lex::lex(lang, text).map_err(|e| format!("{} (line {})", e.what, e.line))?;
    lex::check_balance(&toks)?;
    Ok(toks.iter().filter(|t| t.is_comment()).map(|t| (t.start, t.end)).collect())
}

/// evaluate one program in all languages; `combined` marks the all-docs-together run
fn eval_program(run: &Run, case: &Case, w: &mut Worker, counting: bool, combined: bool) -> Vec<Violation> {
    let (items, ids) = build_items(case);
    let src = items_src(&items);
    let mut out = vec![];
    for lang in ALL_LANGS {
        let generated = if w.via_cli { crate::cli::generate(lang, &case.cfg, &src, &w.scratch) } else { ts::generate(lang, &case.cfg, &[&src], &[]) };
        let text = match generated {
            Outcome::Ok(t) => t,
            o => {
                if counting {
                    run.label(&format!("not-generated/{}/{}", lang.short(), outcome_class(&o)));
                }
                continue;
            }
        };
        let spans = comment_spans(lang, &text, w);
        for (id, pos, d) in &ids {
            let hz = if combined { "combined" } else { hazard_of(d) };
            if counting {
                run.label(&format!("cell/{}/{}", lang.short(), hz));
            }
            let marker = format!("{SENTINEL}{id}x");
            let occ: Vec<usize> = text.match_indices(&marker).map(|(i, _)| i).collect();
            let expected_sentinels = d.pieces.len() - if hazard_of(d) == "trailing-backslash" { 1 } else { 0 };
            match &spans {
                Err(why) => {
                    out.push(Violation::new(
                        format!("{}/breaks-tokenisation/{}", lang.short(), hz),
                        format!("{}: output does not tokenise ({why}); doc at {} ({:?} form) = {:?}", lang.name(), POSITIONS[*pos], d.form, doc_text(d, *id)),
                    ));
                    break;
                }
                Ok(sp) => {
                    let outside: Vec<usize> = occ.iter().copied().filter(|o| !sp.iter().any(|(s, e)| *o >= *s && *o < *e)).collect();
                    if !outside.is_empty() {
                        let o = outside[0];
                        let line_start = text[..o].rfind('\n').map(|x| x + 1).unwrap_or(0);
                        let line_end = text[o..].find('\n').map(|x| o + x).unwrap_or(text.len());
                        out.push(Violation::new(
                            format!("{}/escaped-comment/{}", lang.short(), hz),
                            format!("{}: doc text at {} ({:?} form) appears outside any comment: line `{}`; doc = {:?}", lang.name(), POSITIONS[*pos], d.form, &text[line_start..line_end], doc_text(d, *id)),
                        ));
                    }
                    let missing = (0..expected_sentinels).filter(|k| !text.contains(&format!("{SENTINEL}{id}x{k}"))).count();
                    if missing > 0 {
                        out.push(Violation::new(
                            format!("{}/dropped/{}/{}", lang.short(), POSITIONS[*pos], hz),
                            format!("{}: {} of {} sentinels of the doc at {} are not reproduced; doc = {:?}", lang.name(), missing, expected_sentinels, POSITIONS[*pos], doc_text(d, *id)),
                        ));
                    }
                }
            }
        }
    }
    out
}

pub struct C15;
impl SubCheck for C15 {
    type Case = Case;
    fn crash_guard(&self) -> bool {
        true
    }
    fn name(&self) -> &'static str {
        "c15-docs"
    }
    fn strategy(&self, _tier: Tier) -> BoxedStrategy<Case> {
        let per_pos = prop_oneof![2 => Just(vec![]), 5 => proptest::collection::vec(doc_strategy(), 1..=1), 2 => proptest::collection::vec(doc_strategy(), 2..=3)];
        (proptest::collection::vec(per_pos, 10..=10), cfg_strategy()).prop_map(|(docs, cfg)| Case { docs, cfg }).boxed()
    }
    fn eval(&self, run: &Run, case: &Case, w: &mut Worker, counting: bool) -> Vec<Violation> {
        let (items, ids) = build_items(case);
        let src = items_src(&items);
        if counting {
            for (_, pos, d) in &ids {
                run.label(&format!("doc/{}/{:?}/{}", POSITIONS[*pos], d.form, hazard_of(d)));
                if hazard_of(d) != "benign" {
                    run.nontrivial(hash_of(&(pos, d)));
                }
            }
            run.sample("program", 2, || json!({"source": src}));
        }
        let mut out = vec![];
        // 1. every doc string on its own (exact attribution of a failure to one doc string)
        let mut isolated_ok = true;
        for (pos, list) in case.docs.iter().enumerate() {
            for d in list {
                let mut single = Case { docs: vec![vec![]; 10], cfg: case.cfg.clone() };
                single.docs[pos] = vec![d.clone()];
                let v = eval_program(run, &single, w, counting, false);
                if !v.is_empty() {
                    isolated_ok = false;
                }
                out.extend(v);
            }
        }
        // 2. all of them together: only reported when no single doc string explains it
        if isolated_ok && ids.len() > 1 {
            let v = eval_program(run, case, w, false, true);
            out.extend(v);
        }
        // 3. the same through the real binary (whatever the CLI does to the bytes after the back end wrote them): every
        // doc string with a hazard on its own, for a sixth of the cases
        if out.is_empty() && crate::cli::bin_available() && fnv(&[src.as_bytes()]) % 6 == 0 {
            w.via_cli = true;
            for (pos, list) in case.docs.iter().enumerate() {
                for d in list.iter().filter(|d| hazard_of(d) != "benign") {
                    let mut single = Case { docs: vec![vec![]; 10], cfg: case.cfg.clone() };
                    single.docs[pos] = vec![d.clone()];
                    for v in eval_program(run, &single, w, false, false) {
                        out.push(Violation::new(format!("cli/{}", v.sig), v.detail));
                    }
                    if counting {
                        run.label("via-cli/doc-strings");
                    }
                }
            }
            w.via_cli = false;
        }
        out
    }
    fn render(&self, case: &Case) -> serde_json::Value {
        let (items, _) = build_items(case);
        json!({"source": items_src(&items), "cfg": case.cfg})
    }
}

pub fn run(run: &Run) {
    ts::install_panic_hook();
    run.set_rule("a fixed program with every documentable position (struct, field, unit enum, unit variant, tagged enum, tagged variant, struct-variant field, alias); each position gets 0-3 doc strings written as ///, /** */ or #[doc = \"..\"], built from benign pieces {words, //, #, back-tick, double quote, ''', /*, code-like text} plus at most one terminator-class hazard kind {newline, CRLF, CRLF and LF mixed in one string, a lone carriage return, a lone carriage return plus a line feed elsewhere in the string, */, \"\"\", runs of 4 and 5 double quotes, backslash, trailing backslash}; a unique sentinel follows every piece; a non-doc attribute (allow / doc(hidden)) is written between or before the doc lines of some positions. Oracle: every sentinel occurrence in the output lies inside a comment token of the target language (Python: comment token or expression-statement string, judged by CPython) and the file still tokenises; every sentinel is reproduced. Non-trivial = doc string carries a hazard; distinct by (position, doc string).");
    run.assume("comment/string boundaries are decided by the harness tokeniser for TS/Kotlin/Swift/Scala/Go (language lexical rules incl. nested block comments) and by CPython's tokenize/ast for Python");
    replay_regress(run, &C15);
    search(run, &C15, run.tier.pick(3000, 100_000));    if run.tier == Tier::Thorough {
        crate::fuzz::campaign(run, "c15_docs", 600_000, 256);
    }
}

pub fn replay(run: &Run, case: &serde_json::Value) -> Result<Vec<Violation>, String> {
    ts::install_panic_hook();
    replay_case(run, &C15, case)
}
