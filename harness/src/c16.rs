//! C16 — rename_all case conversion agrees with serde_derive's algorithm (vendored case.rs).
use crate::common::*;
use crate::serde_case::RenameRule;
use crate::ts;
use proptest::prelude::*;
use serde::{Deserialize, Serialize};
use serde_json::json;
use std::panic::{catch_unwind, AssertUnwindSafe};

pub const RULES: [&str; 8] = [
    "lowercase",
    "UPPERCASE",
    "PascalCase",
    "camelCase",
    "snake_case",
    "SCREAMING_SNAKE_CASE",
    "kebab-case",
    "SCREAMING-KEBAB-CASE",
];
pub const UNKNOWN_RULES: [&str; 3] = ["Title Case", "snakecase", "CAMELCASE"];

#[derive(Clone, Copy, Debug, PartialEq, Eq, Hash, Serialize, Deserialize)]
pub enum Pos {
    Field,
    Variant,
    /// field of a struct variant: the rule is the variant's own `rename_all`, written next to an enum-level
    /// `rename_all_fields` with another rule (serde: the variant's rule wins)
    VariantField,
}

#[derive(Clone, Debug, Serialize, Deserialize, Hash, PartialEq, Eq)]
pub struct Case {
    pub ident: String,
    pub rule: String,
    pub pos: Pos,
    /// how the rename_all attribute is spelled relative to another serde attribute (0..5)
    #[serde(default)]
    pub layout: u8,
}

/// serde's answer; None when serde_derive itself panics on that identifier (outside any comparison)
pub fn oracle(ident: &str, rule: &str, pos: Pos) -> Option<String> {
    let r = match RenameRule::from_str(rule) {
        Ok(r) => r,
        Err(_) => return Some(ident.to_string()), // unknown rule: names unchanged (property text)
    };
    catch_unwind(AssertUnwindSafe(|| match pos {
        Pos::Field | Pos::VariantField => r.apply_to_field(ident),
        Pos::Variant => r.apply_to_variant(ident),
    }))
    .ok()
}

const KEYWORDS: &[&str] = &[
    "as", "break", "const", "continue", "crate", "else", "enum", "extern", "false", "fn", "for", "if", "impl", "in", "let",
    "loop", "match", "mod", "move", "mut", "pub", "ref", "return", "self", "Self", "static", "struct", "super", "trait",
    "true", "type", "unsafe", "use", "where", "while", "async", "await", "dyn", "abstract", "become", "box", "do", "final",
    "macro", "override", "priv", "typeof", "unsized", "virtual", "yield", "try", "gen",
];

pub fn valid_ident(s: &str) -> bool {
    let mut ch = s.chars();
    let Some(f) = ch.next() else { return false };
    if s == "_" || KEYWORDS.contains(&s) {
        return false;
    }
    if !(f == '_' || f.is_alphabetic()) {
        return false;
    }
    // syn::parse_str tolerates surrounding white space: an identifier is identifier characters only
    if !s.chars().all(|c| c == '_' || c.is_alphanumeric()) {
        return false;
    }
    // accept exactly what syn accepts
    syn::parse_str::<syn::Ident>(s).is_ok()
}

/// layouts 5..10 spell the identifier as a raw identifier (`r#name`); serde and typeshare both have to drop the prefix first
pub fn spelled(c: &Case) -> String {
    if (c.layout / 5) % 2 == 1 && !["crate", "self", "super", "Self", "_"].contains(&c.ident.as_str()) {
        format!("r#{}", c.ident)
    } else {
        c.ident.clone()
    }
}

fn item_src(i: usize, c: &Case) -> String {
    let attr = match c.layout % 5 {
        0 => format!("#[serde(rename_all = {:?})]", c.rule),
        1 => format!("#[serde(deny_unknown_fields)]\n#[serde(rename_all = {:?})]", c.rule),
        2 => format!("#[serde(rename_all = {:?})]\n#[serde(deny_unknown_fields)]", c.rule),
        3 => format!("#[serde(deny_unknown_fields, rename_all = {:?})]", c.rule),
        _ => format!("#[serde(rename_all = {:?}, deny_unknown_fields,)]", c.rule),
    };
    match c.pos {
        Pos::Field => format!("#[typeshare]\n{}\npub struct S{} {{ pub {}: u8 }}\n", attr, i, spelled(c)),
        Pos::Variant => format!("#[typeshare]\n{}\npub enum S{} {{ {} }}\n", attr, i, spelled(c)),
        Pos::VariantField => {
            let decoy = match RULES.iter().position(|r| *r == c.rule) {
                Some(k) => format!(", rename_all_fields = {:?}", RULES[(k + 3) % 8]),
                None => String::new(),
            };
            format!("#[typeshare]\n#[serde(tag = \"t\", content = \"c\"{decoy})]\npub enum S{} {{\n    {}\n    Holder {{ {}: u8 }},\n}}\n", i, attr.replace('\n', "\n    "), spelled(c))
        }
    }
}

/// typeshare's answers for a batch, end to end through parser::parse. Err(msg) per item = panic / parse error.
pub fn observe_batch(cases: &[Case]) -> Vec<Result<String, String>> {
    let mut src = String::new();
    for (i, c) in cases.iter().enumerate() {
        src.push_str(&item_src(i, c));
    }
    match ts::parse_src(&src, &[]) {
        Ok(Some(d)) if d.errors.is_empty() => {
            let mut out: Vec<Result<String, String>> = vec![Err("item missing from ParsedData".into()); cases.len()];
            for s in &d.structs {
                if let Ok(i) = s.id.original[1..].parse::<usize>() {
                    if let (Some(f), Some(slot)) = (s.fields.first(), out.get_mut(i)) {
                        *slot = Ok(f.id.renamed.clone());
                    }
                }
            }
            for e in &d.enums {
                let sh = e.shared();
                if let Ok(i) = sh.id.original[1..].parse::<usize>() {
                    if let (Some(v), Some(slot)) = (sh.variants.first(), out.get_mut(i)) {
                        *slot = match v {
                            typeshare_core::rust_types::RustEnumVariant::AnonymousStruct { fields, .. } => fields.first().map(|f| Ok(f.id.renamed.clone())).unwrap_or(Err("struct variant without field".into())),
                            _ => Ok(v.shared().id.renamed.clone()),
                        };
                    }
                }
            }
            out
        }
        other => {
            if cases.len() == 1 {
                let msg = match other {
                    Err(ts::Outcome::Panic(m)) => format!("panic: {m}"),
                    Err(ts::Outcome::ParseErr(e)) => format!("parse error: {e:?}"),
                    Ok(Some(d)) => format!("item error: {:?}", d.errors.iter().map(|e| e.error.to_string()).collect::<Vec<_>>()),
                    Ok(None) => "no data".into(),
                    Err(o) => format!("{o:?}"),
                };
                vec![Err(msg)]
            } else {
                // bisect so one bad identifier does not hide the others
                let mid = cases.len() / 2;
                let mut a = observe_batch(&cases[..mid]);
                a.extend(observe_batch(&cases[mid..]));
                a
            }
        }
    }
}


/// A copy of typeshare's field-position conversion as it stands at the pinned commit (core/src/rename.rs +
/// parser.rs rename_all_to_case). It is NOT an oracle: it only delimits the recorded finding "field identifiers
/// that are not conventional snake_case are converted by the legacy single algorithm" (pinned by the repo's own
/// snapshot anonymous_struct_with_rename), so that any other disagreement is reported as new.
pub fn legacy_field(ident: &str, rule: &str) -> Option<String> {
    fn pascal(s: &str) -> String {
        let mut pascal = String::new();
        let mut capitalize = true;
        let to_lowercase = s.to_ascii_uppercase() == s;
        for ch in s.chars() {
            if ch == '_' {
                capitalize = true;
            } else if capitalize {
                pascal.push(ch.to_ascii_uppercase());
                capitalize = false;
            } else {
                pascal.push(if to_lowercase { ch.to_ascii_lowercase() } else { ch });
            }
        }
        pascal
    }
    fn snake(s: &str) -> String {
        let mut snake = String::new();
        let is_uppercase = s.to_ascii_uppercase() == s;
        for (i, ch) in s.char_indices() {
            if i > 0 && ch.is_uppercase() && !is_uppercase {
                snake.push('_');
            }
            snake.push(ch.to_ascii_lowercase());
        }
        snake
    }
    Some(match rule {
        "lowercase" => ident.to_lowercase(),
        "UPPERCASE" => ident.to_uppercase(),
        "PascalCase" => pascal(ident),
        "camelCase" => {
            let p = pascal(ident);
            if p.is_empty() || !p.is_char_boundary(1) {
                return None;
            }
            p[..1].to_ascii_lowercase() + &p[1..]
        }
        "snake_case" => snake(ident),
        "SCREAMING_SNAKE_CASE" => snake(ident).to_ascii_uppercase(),
        "kebab-case" => snake(ident).replace('_', "-"),
        "SCREAMING-KEBAB-CASE" => snake(ident).replace('_', "-").to_ascii_uppercase(),
        _ => ident.to_string(),
    })
}

pub fn conventional_field(ident: &str) -> bool {
    ident.chars().all(|c| c.is_ascii_lowercase() || c.is_ascii_digit() || c == '_')
}

fn shape(ident: &str) -> String {
    let mut s = String::new();
    for c in ident.chars() {
        let k = if c == '_' {
            '_'
        } else if c.is_ascii_lowercase() {
            'l'
        } else if c.is_ascii_uppercase() {
            'U'
        } else if c.is_ascii_digit() {
            'd'
        } else if c.is_lowercase() {
            'x'
        } else {
            'X'
        };
        if !s.ends_with(k) {
            s.push(k);
        }
    }
    s
}

pub fn judge(c: &Case, got: &Result<String, String>) -> Option<Violation> {
    let want = oracle(&c.ident, &c.rule, c.pos)?;
    let pos = match c.pos {
        // fields of struct variants go through the same conversion as struct fields (same signatures)
        Pos::Field | Pos::VariantField => "field",
        Pos::Variant => "variant",
    };
    let rule = if RULES.contains(&c.rule.as_str()) { c.rule.as_str() } else { "unknown-rule" };
    match got {
        Ok(g) if *g == want => None,
        Ok(g) => Some(Violation::new(
            if c.pos != Pos::Variant && !conventional_field(&c.ident) && legacy_field(&c.ident, &c.rule).as_deref() == Some(g.as_str()) {
                format!("{pos}/{rule}/legacy-conversion-of-nonconventional-ident")
            } else {
                format!("{pos}/{rule}/mismatch")
            },
            format!("{pos} `{}` (shape {}) under rename_all = {:?}: serde_derive gives {:?}, typeshare gives {:?}", c.ident, shape(&c.ident), c.rule, want, g),
        )),
        Err(m) => Some(Violation::new(
            format!("{pos}/{rule}/no-answer"),
            format!("{pos} `{}` under rename_all = {:?}: serde_derive gives {:?}, typeshare: {m}", c.ident, c.rule, want),
        )),
    }
}

fn nontrivial(ident: &str) -> bool {
    ident.chars().count() >= 2
}

pub struct C16;
impl SubCheck for C16 {
    type Case = Case;
    fn name(&self) -> &'static str {
        "c16-rename"
    }
    fn strategy(&self, _tier: Tier) -> BoxedStrategy<Case> {
        // richer alphabet than the exhaustive part: several representatives per class, longer identifiers
        let ch = prop_oneof![
            4 => proptest::char::range('a', 'z'),
            3 => proptest::char::range('A', 'Z'),
            2 => proptest::char::range('0', '9'),
            2 => Just('_'),
            1 => prop_oneof![Just('é'), Just('É'), Just('ß'), Just('ǆ'), Just('ǅ'), Just('İ'), Just('ı'), Just('ж'), Just('Ж'), Just('字')],
        ];
        let ident = proptest::collection::vec(ch, 1..12).prop_map(|v| v.into_iter().collect::<String>());
        let rule = prop_oneof![
            8 => proptest::sample::select(RULES.to_vec()).prop_map(|s| s.to_string()),
            1 => proptest::sample::select(UNKNOWN_RULES.to_vec()).prop_map(|s| s.to_string()),
        ];
        (ident, rule, prop_oneof![Just(Pos::Field), Just(Pos::Variant), Just(Pos::VariantField)], 0u8..10)
            .prop_filter("valid Rust identifier", |(i, _, _, _)| valid_ident(i))
            .prop_map(|(ident, rule, pos, layout)| Case { ident, rule, pos, layout })
            .boxed()
    }
    fn eval(&self, run: &Run, c: &Case, _w: &mut Worker, counting: bool) -> Vec<Violation> {
        let got = observe_batch(std::slice::from_ref(c));
        if counting {
            if oracle(&c.ident, &c.rule, c.pos).is_none() {
                run.label("oracle-undefined(serde panics)");
            } else if nontrivial(&c.ident) {
                run.nontrivial(hash_of(c));
            }
            run.label(&format!("random/{:?}/{}", c.pos, if RULES.contains(&c.rule.as_str()) { "known-rule" } else { "unknown-rule" }));
            run.sample("random", 3, || json!({"ident": c.ident, "rule": c.rule, "pos": format!("{:?}", c.pos), "serde": oracle(&c.ident, &c.rule, c.pos), "typeshare": format!("{:?}", got[0])}));
        }
        judge(c, &got[0]).into_iter().collect()
    }
}

const DICTIONARY: &[&str] = &[
    "URL", "HTTPServer", "addressLine1", "AddressLine1", "x86_64", "_private", "__", "___", "A", "V2", "a", "a_", "_a", "a__b",
    "fooBar", "FooBar", "foo_bar", "FOO_BAR", "Foo_Bar", "foo_Bar", "IPv4", "Ipv4Address", "Sha256Digest", "XAxis", "utf8_text",
    "id", "ID", "Id", "iOS", "macOS", "ABc", "aBC", "A1", "a1b2", "A1B2", "B2b", "T", "TOTP", "Number1", "number_1", "_1",
    "field_name_with_many_words", "VariantNameWithManyWords", "ÉcoleNormale", "école_normale", "straße", "STRASSE", "İstanbul",
    "ǅemal", "жук", "Жук", "字段", "last_", "Trailing_", "double__underscore", "Double__Underscore",
];

fn class_strings(max_len: usize, reps: &[char]) -> Vec<String> {
    let mut out = vec![];
    let mut cur: Vec<String> = vec![String::new()];
    for _ in 0..max_len {
        let mut next = vec![];
        for s in &cur {
            for &r in reps {
                let mut t = s.clone();
                t.push(r);
                next.push(t);
            }
        }
        out.extend(next.iter().filter(|s| valid_ident(s)).cloned());
        cur = next;
    }
    out
}

pub fn run(run: &Run) {
    ts::install_panic_hook();
    run.set_rule("exhaustive: every valid Rust identifier up to length L over one representative per character class {a, B, 1, _, é} (quick L=5, thorough L=7; thorough additionally a second representative set {z, Q, 9, _, É}), x 8 rules + unknown rule x {field, variant}, end to end through parser::parse on one-field structs / one-variant enums; plus a dictionary of real-world identifiers and proptest draws of identifiers up to length 11 over a-z, A-Z, 0-9, _, and ten non-ASCII letters with unusual case mappings. Oracle: serde_derive 1.0.214 case.rs, vendored verbatim. Non-trivial = identifier length >= 2; distinct by (identifier, rule, position).");
    run.assume("identifiers on which serde_derive's own algorithm panics (camelCase of an all-underscore field) are outside the comparison and counted as oracle-undefined");
    run.assume("unknown rule => unchanged is taken from the property text (serde rejects such an attribute at compile time)");
    replay_regress(run, &C16);
    let max_len = run.tier.pick(5, 7);
    let mut idents = class_strings(max_len, &['a', 'B', '1', '_', 'é']);
    if run.tier == Tier::Thorough {
        idents.extend(class_strings(6, &['z', 'Q', '9', '_', 'É']));
    }
    let n_class = idents.len();
    idents.extend(DICTIONARY.iter().filter(|s| valid_ident(s)).map(|s| s.to_string()));
    idents.sort();
    idents.dedup();
    let mut rules: Vec<&str> = RULES.to_vec();
    rules.push(UNKNOWN_RULES[0]);
    let mut cases = vec![];
    for id in &idents {
        for r in &rules {
            for pos in [Pos::Field, Pos::Variant, Pos::VariantField] {
                cases.push(Case { ident: id.clone(), rule: r.to_string(), pos, layout: (fnv(&[id.as_bytes(), r.as_bytes()]) % 10) as u8 });
            }
        }
    }
    // keywords are identifiers only in raw form
    for kw in crate::gen::RAW_FIELD_NAMES {
        for r in &rules {
            for pos in [Pos::Field, Pos::Variant, Pos::VariantField] {
                cases.push(Case { ident: kw.to_string(), rule: r.to_string(), pos, layout: 5 + (fnv(&[kw.as_bytes(), r.as_bytes()]) % 5) as u8 });
            }
        }
    }
    run.extra("exhaustive_identifiers", json!(n_class));
    run.extra("exhaustive_comparisons", json!(cases.len()));
    let n = threads();
    let chunk = (cases.len() + n - 1) / n;
    std::thread::scope(|sc| {
        for part in cases.chunks(chunk.max(1)) {
            sc.spawn(move || {
                for batch in part.chunks(400) {
                    let got = observe_batch(batch);
                    for (c, g) in batch.iter().zip(got.iter()) {
                        if oracle(&c.ident, &c.rule, c.pos).is_none() {
                            run.label("oracle-undefined(serde panics)");
                            continue;
                        }
                        if nontrivial(&c.ident) {
                            run.nontrivial(hash_of(c));
                        }
                        if let Some(v) = judge(c, g) {
                            for v in run.triage(vec![v], true) {
                                run.record_violation("c16-rename", &v, serde_json::to_value(c).unwrap(), json!(item_src(0, c)));
                            }
                        }
                    }
                    run.count_eval(batch.len() as u64);
                }
            });
        }
    });
    run.label_n("exhaustive-comparisons", cases.len() as u64);
    run.sample("exhaustive", 3, || json!({"ident": "aB_1é", "rule": "camelCase", "pos": "Field", "serde": oracle("aB_1é", "camelCase", Pos::Field), "typeshare": format!("{:?}", observe_batch(&[Case{ident:"aB_1é".into(), rule:"camelCase".into(), pos:Pos::Field, layout: 0}])[0])}));
    run.set_exhaustive(true);
    run.extra("exhaustive_scope", json!(format!("class-representative identifiers up to length {max_len}; the proptest part is sampled")));
    search(run, &C16, run.tier.pick(40_000, 1_500_000));    if run.tier == Tier::Thorough {
        crate::fuzz::campaign(run, "c16_rename", 3_000_000, 64);
    }
}

pub fn replay(run: &Run, case: &serde_json::Value) -> Result<Vec<Violation>, String> {
    ts::install_panic_hook();
    replay_case(run, &C16, case)
}
