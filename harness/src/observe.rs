//! Front door of the observers: generated text -> tokens -> IR, per language.
use crate::common::Worker;
use crate::lex::{self, Tok};
use crate::obs::*;
use crate::ts::Lang;

pub struct Observed {
    pub file: OFile,
    /// all tokens incl. comments (empty for Python)
    pub toks: Vec<Tok>,
    pub py: Option<crate::obs_py::PyFacts>,
}

#[derive(Debug, Clone)]
pub enum ObsError {
    /// tokenisation failed: something is left unclosed
    Lex { what: String, line: usize },
    /// brackets do not nest
    Balance(String),
    /// a construct does not match the declaration grammar
    Grammar { construct: String, msg: String, line: usize },
}
impl ObsError {
    pub fn class(&self) -> String {
        match self {
            ObsError::Lex { what, .. } => format!("unclosed:{}", what.replace(' ', "-")),
            ObsError::Balance(_) => "unbalanced".into(),
            ObsError::Grammar { construct, .. } => if construct.contains(':') { construct.clone() } else { format!("bad-decl:{}", construct.replace(' ', "-")) },
        }
    }
    pub fn show(&self) -> String {
        match self {
            ObsError::Lex { what, line } => format!("{what} (line {line})"),
            ObsError::Balance(m) => m.clone(),
            ObsError::Grammar { construct, msg, line } => format!("in {construct}, line {line}: {msg}"),
        }
    }
}

pub fn observe(lang: Lang, text: &str, w: &mut Worker, exec_python: bool) -> Result<Observed, ObsError> {
    if lang == Lang::Python {
        return match crate::obs_py::analyze(w.py(), text, exec_python) {
            Ok(p) => Ok(Observed { file: p.file.clone(), toks: vec![], py: Some(p) }),
            Err(g) => Err(ObsError::Grammar { construct: g.construct, msg: g.msg, line: g.line }),
        };
    }
    let toks = lex::lex(lang, text).map_err(|e| ObsError::Lex { what: e.what, line: e.line })?;
    lex::check_balance(&toks).map_err(ObsError::Balance)?;
    let sig = lex::significant(&toks);
    let r = match lang {
        Lang::TypeScript => crate::obs_ts::parse(&sig),
        Lang::Kotlin => crate::obs_kotlin::parse(&sig),
        Lang::Swift => crate::obs_swift::parse(&sig),
        Lang::Scala => crate::obs_scala::parse(&sig),
        Lang::Go => crate::obs_go::parse(&sig),
        Lang::Python => unreachable!(),
    };
    match r {
        Ok(file) => Ok(Observed { file, toks, py: None }),
        Err(g) => Err(ObsError::Grammar { construct: g.construct, msg: g.msg, line: g.line }),
    }
}
