//! C03, real-binary family: annotated and un-annotated items spread over a directory tree with non-Rust files; an item that
//! cannot be generated must make the run fail, whatever order the files arrive in.
use crate::c01_05::c03;
use crate::cli;
use crate::common::*;
use crate::factcheck::Ctx;
use crate::gen;
use crate::model::*;
use crate::observe::observe;
use crate::prog::match_decls;
use crate::ts::{Cfg, Lang};
use crate::ws::{self, Workspace};
use proptest::prelude::*;
use serde::{Deserialize, Serialize};
use serde_json::json;
use std::time::Duration;

#[derive(Clone, Debug, Serialize, Deserialize)]
pub struct Case {
    pub ws: Workspace,
    pub lang: Lang,
    /// file slot that additionally holds an annotated item typeshare cannot generate (tuple struct with two fields)
    pub bad_in_file: Option<usize>,
}

pub struct C03Cli;
impl SubCheck for C03Cli {
    type Case = Case;
    fn name(&self) -> &'static str {
        "c03-cli"
    }
    fn strategy(&self, _tier: Tier) -> BoxedStrategy<Case> {
        let g = (c03().gen)();
        (gen::program(&g), ws::slots(1..=3, 2..=7), proptest::collection::vec(0usize..7, 8), ws::lang_strategy(), prop_oneof![2 => Just(None), 1 => (0usize..7).prop_map(Some)])
            .prop_map(|(items, slots, assign, lang, bad)| {
                let mut w = ws::distribute(items, &slots, &assign);
                // decoys: text that looks annotated but is not Rust source, and a Rust file without any annotation
                w.extra.push(("docs/README.md".into(), "#[typeshare]\npub struct FromReadme { pub f: u8 }\n".into()));
                w.extra.push(("the-notes/src/notes.txt".into(), "#[typeshare]\npub struct FromNotes { pub f: u8 }\n".into()));
                w.extra.push(("plain-crate/src/plain.rs".into(), "pub struct NeverAnnotated { pub f: u8 }\n// #[typeshare] only mentioned in a comment\n".into()));
                let bad_in_file = bad.map(|b| b % w.files.len().max(1));
                Case { ws: w, lang, bad_in_file }
            })
            .boxed()
    }
    fn eval(&self, run: &Run, c: &Case, w: &mut Worker, counting: bool) -> Vec<Violation> {
        let mut out = vec![];
        let lang = c.lang;
        let mut wsx = c.ws.clone();
        // consts only where the back end has them
        if matches!(lang, Lang::Kotlin | Lang::Swift | Lang::Scala) {
            for f in wsx.files.iter_mut() {
                f.items.retain(|i| !matches!(i.kind, Kind::Const { .. }));
            }
        }
        if let Some(b) = c.bad_in_file {
            if let Some(f) = wsx.files.get_mut(b) {
                // one of several annotated items typeshare cannot generate; where it sits inside the item differs
                const BAD: [&str; 6] = [
                    "\n#[typeshare]\npub struct CannotBeGenerated(pub u32, pub u32);\n",
                    "\n#[typeshare]\npub struct CannotBeGenerated { pub fine: u8, pub too_wide: u64 }\n",
                    "\n#[typeshare]\n#[serde(tag = \"t\", content = \"c\")]\npub enum CannotBeGenerated { Fine(u8), Shape { fine: u8, too_wide: i64 } }\n",
                    "\n#[typeshare]\n#[serde(tag = \"t\", content = \"c\")]\npub enum CannotBeGenerated { Fine, Pair { both: (u8, u8) } }\n",
                    "\n#[typeshare]\n#[serde(tag = \"t\", content = \"c\")]\npub enum CannotBeGenerated { Fine(u8), Wide(usize) }\n",
                    "\n#[typeshare]\npub type CannotBeGenerated = Vec<Option<u64>>;\n",
                ];
                f.tail.push_str(BAD[(b + c.ws.files.len() + c.ws.files.iter().map(|x| x.items.len()).sum::<usize>()) % BAD.len()]);
            }
        }
        let items: Vec<Item> = wsx.files.iter().flat_map(|f| f.items.iter().cloned()).collect();
        if !items.iter().any(|i| i.annotated) && c.bad_in_file.is_none() {
            return out; // nothing annotated at all: the CLI reports "nothing to do", not C03's subject
        }
        let root = cli::fresh_dir(&w.scratch, "c03");
        let tree = root.join("tree");
        cli::write_tree(&tree, &wsx.tree());
        let cfg = Cfg::plain();
        if counting {
            run.label(&format!("c03cli/{}/{}", lang.short(), if c.bad_in_file.is_some() { "with-ungeneratable-item" } else { "clean" }));
            run.nontrivial(hash_of(&(serde_json::to_string(&wsx).unwrap_or_default(), lang)));
        }
        let orders: Vec<Option<&str>> = if c.bad_in_file.is_some() { vec![None, Some("rev"), Some("0")] } else { vec![None] };
        for ord in orders {
            let outp = root.join(format!("out.{}", lang.ext()));
            let _ = std::fs::remove_file(&outp);
            // half of the clean cases: the output path already holds the (longer) result of an earlier run over a tree
            // that had one more annotated item - what is generated now must be exactly the current tree's items
            let regenerated = c.bad_in_file.is_none() && wsx.files.len() % 2 == 0;
            if regenerated {
                let prev = root.join("tree_prev");
                cli::write_tree(&prev, &wsx.tree());
                cli::write_tree(&prev, &[("zz-extra/src/lib.rs".into(), b"#[typeshare]\npub struct LeftOverFromEarlierRun {\n    pub stale_field_one: String,\n    pub stale_field_two: Vec<Option<String>>,\n    pub stale_field_three: HashMap<String, Vec<u32>>,\n}\n\n#[typeshare]\npub enum LeftOverEnumFromEarlierRun {\n    StaleVariantOne,\n    StaleVariantTwo,\n    StaleVariantThree,\n}\n".to_vec())]);
                let mut pargs = cli::lang_args(lang, &cfg);
                pargs.extend(["-o".into(), outp.to_string_lossy().into_owned(), prev.to_string_lossy().into_owned()]);
                let _ = cli::run(&pargs, &root, &[], Duration::from_secs(20));
                if counting {
                    run.label(&format!("c03cli/{}/into-the-output-of-an-earlier-run", lang.short()));
                }
            }
            let mut args = cli::lang_args(lang, &cfg);
            args.extend(["-o".into(), outp.to_string_lossy().into_owned(), tree.to_string_lossy().into_owned()]);
            let env: Vec<(String, String)> = ord.map(|o| vec![("TYPESHARE_VERIF_ORDER".to_string(), o.to_string())]).unwrap_or_default();
            let r = cli::run(&args, &root, &env, Duration::from_secs(20));
            if r.timed_out || r.panicked() {
                if counting {
                    run.label("c03cli/panic-or-hang(left to C07)");
                }
                continue;
            }
            if c.bad_in_file.is_some() {
                if r.code == Some(0) {
                    let text = std::fs::read_to_string(&outp).unwrap_or_default();
                    out.push(Violation::new(
                        format!("cli/silent-omit/arrival-order={}", ord.unwrap_or("natural")),
                        format!("{}: an annotated item that cannot be generated (tuple struct / 64-bit field / tuple field, see the tree) is present, yet the run exits 0 and the output {} it (arrival order {})", lang.name(), if text.contains("CannotBeGenerated") { "contains" } else { "silently omits" }, ord.unwrap_or("natural")),
                    ));
                }
                continue;
            }
            if !r.ok() {
                if counting {
                    run.label(&format!("c03cli/not-generated/exit={:?}", r.code));
                }
                continue;
            }
            let text = std::fs::read_to_string(&outp).unwrap_or_default();
            if regenerated {
                for stale in ["LeftOverFromEarlierRun", "LeftOverEnumFromEarlierRun", "stale_field", "StaleVariant"] {
                    if text.contains(stale) {
                        out.push(Violation::new(format!("cli/{}/item-extra/left-over-from-earlier-run", lang.short()), format!("{}: `{stale}` belongs to an item that is no longer in the source tree but is still in the output file after re-generation", lang.name())));
                        break;
                    }
                }
            }
            for decoy in ["FromReadme", "FromNotes", "NeverAnnotated"] {
                if text.contains(decoy) {
                    out.push(Violation::new(format!("cli/{}/item-extra/decoy-file", lang.short()), format!("{}: `{decoy}` (from a non-Rust or un-annotated file) appears in the output", lang.name())));
                }
            }
            match observe(lang, &text, w, false) {
                Ok(obs) => {
                    let m = match_decls(&items, lang, &cfg, &obs.file);
                    let ctx = Ctx { items: &items, cfg: &cfg, lang, text: &text, obs: &obs, m: &m, run, counting };
                    for v in (c03().oracle)(&ctx) {
                        out.push(Violation::new(format!("cli/{}", v.sig), v.detail));
                    }
                }
                Err(_) => {
                    if counting {
                        run.label(&format!("c03cli/unobservable/{}", lang.short()));
                    }
                }
            }
        }
        let _ = std::fs::remove_dir_all(&root);
        out.sort_by(|a, b| a.sig.cmp(&b.sig));
        out.dedup_by(|a, b| a.sig == b.sig);
        out
    }
    fn render(&self, c: &Case) -> serde_json::Value {
        json!({"lang": c.lang.name(), "bad_in_file": c.bad_in_file, "files": c.ws.tree().iter().map(|(p, t)| json!({"path": p, "content": String::from_utf8_lossy(t)})).collect::<Vec<_>>()})
    }
}

pub fn run_cli_family(run: &Run) {
    if !cli::bin_available() {
        run.inconclusive("typeshare binary not built");
        return;
    }
    replay_regress(run, &C03Cli);
    search(run, &C03Cli, run.tier.pick(300, 4000));
}

pub fn replay(run: &Run, case: &serde_json::Value) -> Result<Vec<Violation>, String> {
    replay_case(run, &C03Cli, case)
}
