//! C03, real-binary family (directory trees) — filled in once the CLI runner exists.
use crate::common::*;
pub fn run_cli_family(_run: &Run) {}
