//! C13 — --target-os filtering follows the documented accept/reject rule at every level.
use crate::cli;
use crate::common::*;
use crate::model::Cfg;
use crate::ts;
use proptest::prelude::*;
use serde::{Deserialize, Serialize};
use serde_json::json;
use std::time::Duration;

/// The documented rule, evaluated on the harness's own tree: with targets T (non-empty), R = OS names under any `not`,
/// A = the other OS names (all cfg attributes of the node pooled); keep <=> R ∩ T = ∅ and (A = ∅ or A ∩ T ≠ ∅).
pub fn keep(attrs: &[Cfg], targets: &[String]) -> bool {
    if targets.is_empty() {
        return true;
    }
    let mut a: Vec<&str> = vec![];
    let mut r: Vec<&str> = vec![];
    fn walk<'x>(c: &'x Cfg, under_not: bool, a: &mut Vec<&'x str>, r: &mut Vec<&'x str>) {
        match c {
            Cfg::Os(s) => {
                if under_not {
                    r.push(s)
                } else {
                    a.push(s)
                }
            }
            Cfg::Feature(_) | Cfg::Word(_) => {}
            Cfg::Any(v) | Cfg::All(v) => v.iter().for_each(|x| walk(x, under_not, a, r)),
            Cfg::Not(v) => v.iter().for_each(|x| walk(x, true, a, r)),
        }
    }
    for c in attrs {
        walk(c, false, &mut a, &mut r);
    }
    let hit = |names: &Vec<&str>| names.iter().any(|n| targets.iter().any(|t| t == n));
    !hit(&r) && (a.is_empty() || hit(&a))
}

#[derive(Clone, Copy, Debug, PartialEq, Eq, Hash, Serialize, Deserialize)]
pub enum Level {
    File,
    Struct,
    Enum,
    Alias,
    Const,
    Variant,
    Field,
    VariantField,
}
pub const LEVELS: [Level; 8] = [Level::File, Level::Struct, Level::Enum, Level::Alias, Level::Const, Level::Variant, Level::Field, Level::VariantField];

fn attrs_src(attrs: &[Cfg], inner: bool) -> String {
    attrs.iter().map(|c| format!("#{}[cfg({})]\n", if inner { "!" } else { "" }, c.rust())).collect()
}

/// source of one guarded node number `i` at the given level; returns (source, probe) where probe says how to observe it
pub fn node_src(i: usize, level: Level, attrs: &[Cfg]) -> String {
    let a = attrs_src(attrs, false);
    match level {
        Level::File => format!("{}#[typeshare]\npub struct N{i} {{ pub guarded: u8 }}\n", attrs_src(attrs, true)),
        Level::Struct => format!("#[typeshare]\n{a}pub struct N{i} {{ pub guarded: u8 }}\n"),
        Level::Enum => format!("{a}#[typeshare]\npub enum N{i} {{ Guarded }}\n"),
        Level::Alias => format!("#[typeshare]\n{a}pub type N{i} = u8;\n"),
        Level::Const => format!("{a}#[typeshare]\npub const N{i}: u8 = 1;\n"),
        Level::Variant => format!("#[typeshare]\npub enum N{i} {{ Keep, {a} Guarded }}\n"),
        Level::Field => format!("#[typeshare]\npub struct N{i} {{ pub keep: u8, {a} pub guarded: u8 }}\n"),
        Level::VariantField => format!("#[typeshare]\n#[serde(tag = \"t\", content = \"c\")]\npub enum N{i} {{ Keep(String), Holder {{ keep: u8, {a} guarded: u8 }} }}\n"),
    }
}

/// is the guarded node number i present in the parse result?
fn present(d: &typeshare_core::parser::ParsedData, i: usize, level: Level) -> bool {
    let name = format!("N{i}");
    match level {
        Level::File | Level::Struct => d.structs.iter().any(|s| s.id.original == name),
        Level::Enum => d.enums.iter().any(|e| e.shared().id.original == name),
        Level::Alias => d.aliases.iter().any(|a| a.id.original == name),
        Level::Const => d.consts.iter().any(|c| c.id.original == name),
        Level::Variant => d.enums.iter().find(|e| e.shared().id.original == name).map(|e| e.shared().variants.iter().any(|v| v.shared().id.original == "Guarded")).unwrap_or(false),
        Level::Field => d.structs.iter().find(|s| s.id.original == name).map(|s| s.fields.iter().any(|f| f.id.original == "guarded")).unwrap_or(false),
        Level::VariantField => d
            .enums
            .iter()
            .find(|e| e.shared().id.original == name)
            .map(|e| {
                e.shared().variants.iter().any(|v| match v {
                    typeshare_core::rust_types::RustEnumVariant::AnonymousStruct { fields, .. } => fields.iter().any(|f| f.id.original == "guarded"),
                    _ => false,
                })
            })
            .unwrap_or(false),
    }
}

/// Evaluate a batch of guarded nodes (same level) against one target list; returns per node Some(present) / None (parse failed)
pub fn observe_batch(nodes: &[Vec<Cfg>], level: Level, targets: &[String]) -> Vec<Option<bool>> {
    if level == Level::File {
        return nodes
            .iter()
            .map(|attrs| match ts::parse_src(&node_src(0, level, attrs), targets) {
                Ok(Some(d)) => Some(present(&d, 0, level)),
                Ok(None) => Some(false),
                Err(_) => None,
            })
            .collect();
    }
    let mut src = String::new();
    for (i, attrs) in nodes.iter().enumerate() {
        src.push_str(&node_src(i, level, attrs));
    }
    match ts::parse_src(&src, targets) {
        Ok(Some(d)) if d.errors.is_empty() => (0..nodes.len()).map(|i| Some(present(&d, i, level))).collect(),
        Ok(None) => vec![Some(false); nodes.len()],
        _ => {
            if nodes.len() == 1 {
                vec![None]
            } else {
                let mid = nodes.len() / 2;
                let mut a = observe_batch(&nodes[..mid], level, targets);
                a.extend(observe_batch(&nodes[mid..], level, targets));
                a
            }
        }
    }
}

fn shape_class(attrs: &[Cfg]) -> String {
    fn depth(c: &Cfg) -> usize {
        match c {
            Cfg::Any(v) | Cfg::All(v) | Cfg::Not(v) => 1 + v.iter().map(depth).max().unwrap_or(0),
            _ => 1,
        }
    }
    fn has_not_with_combinator(c: &Cfg, under: bool) -> bool {
        match c {
            Cfg::Not(v) => under || v.iter().any(|x| matches!(x, Cfg::Any(_) | Cfg::All(_))) || v.iter().any(|x| has_not_with_combinator(x, true)),
            Cfg::Any(v) | Cfg::All(v) => v.iter().any(|x| has_not_with_combinator(x, true)),
            _ => false,
        }
    }
    let d = attrs.iter().map(depth).max().unwrap_or(0);
    format!("{}attr/depth{}{}", attrs.len(), d.min(6), if attrs.iter().any(|c| has_not_with_combinator(c, false)) { "/not+combinator" } else { "" })
}

pub fn judge(attrs: &[Cfg], level: Level, targets: &[String], got: Option<bool>) -> Option<Violation> {
    let want = keep(attrs, targets);
    match got {
        Some(g) if g == want => None,
        Some(g) => Some(Violation::new(
            format!("{:?}/{}/{}", level, if g { "kept-should-drop" } else { "dropped-should-keep" }, if attrs.len() > 1 { "several-attributes" } else { "one-attribute" }),
            format!("level {:?}, targets {:?}, attributes {}: documented rule says {}, typeshare {}", level, targets, attrs.iter().map(|c| format!("#[cfg({})]", c.rust())).collect::<Vec<_>>().join(" "), if want { "keep" } else { "drop" }, if g { "kept it" } else { "dropped it" }),
        )),
        None => Some(Violation::new(format!("{:?}/no-answer", level), format!("parse failed for {}", attrs.iter().map(|c| c.rust()).collect::<Vec<_>>().join(" ")))),
    }
}

fn leaves(full: bool) -> Vec<Cfg> {
    let mut v = vec![Cfg::Os("a".into()), Cfg::Os("b".into())];
    if full {
        v.push(Cfg::Os("c".into()));
    }
    v.push(Cfg::Feature("f".into()));
    if full {
        v.push(Cfg::Word("unix".into()));
    }
    v
}

/// all expressions of nesting depth <= `depth` (a leaf has depth 1) with arity <= 2
pub fn enumerate(depth: usize, full: bool) -> Vec<Cfg> {
    let mut cur = leaves(full);
    for _ in 1..depth {
        let mut next = cur.clone();
        for x in &cur {
            next.push(Cfg::Not(vec![x.clone()]));
            next.push(Cfg::Any(vec![x.clone()]));
            next.push(Cfg::All(vec![x.clone()]));
        }
        for x in &cur {
            for y in &cur {
                next.push(Cfg::Any(vec![x.clone(), y.clone()]));
                next.push(Cfg::All(vec![x.clone(), y.clone()]));
            }
        }
        cur = next;
    }
    cur
}

pub fn all_target_lists(names: &[&str]) -> Vec<Vec<String>> {
    let n = names.len();
    (0..(1u32 << n)).map(|m| (0..n).filter(|i| m & (1 << i) != 0).map(|i| names[i].to_string()).collect()).collect()
}

#[derive(Clone, Debug, Serialize, Deserialize)]
pub struct Case {
    pub attrs: Vec<Cfg>,
    pub level: Level,
    pub targets: Vec<String>,
}

fn cfg_strategy() -> BoxedStrategy<Cfg> {
    let leaf = prop_oneof![
        3 => proptest::sample::select(vec!["a", "b", "c", "e"]).prop_map(|s| Cfg::Os(s.to_string())),
        1 => Just(Cfg::Feature("f".into())),
        1 => proptest::sample::select(vec!["unix", "windows", "debug_assertions", "test"]).prop_map(|s| Cfg::Word(s.to_string())),
    ];
    leaf.prop_recursive(6, 48, 3, |inner| {
        prop_oneof![
            2 => proptest::collection::vec(inner.clone(), 1..=1).prop_map(Cfg::Not),
            2 => proptest::collection::vec(inner.clone(), 0..=3).prop_map(Cfg::Any),
            2 => proptest::collection::vec(inner.clone(), 0..=3).prop_map(Cfg::All),
        ]
    })
    .boxed()
}

pub struct C13;
impl SubCheck for C13 {
    type Case = Case;
    fn crash_guard(&self) -> bool {
        true
    }
    fn name(&self) -> &'static str {
        "c13-sampled"
    }
    fn strategy(&self, _tier: Tier) -> BoxedStrategy<Case> {
        (proptest::collection::vec(cfg_strategy(), 1..=3), proptest::sample::select(LEVELS.to_vec()), proptest::collection::vec(proptest::sample::select(vec!["a", "b", "c", "d"]), 0..=4))
            .prop_map(|(attrs, level, t)| Case { attrs, level, targets: t.into_iter().map(|s| s.to_string()).collect() })
            .boxed()
    }
    fn eval(&self, run: &Run, c: &Case, _w: &mut Worker, counting: bool) -> Vec<Violation> {
        let got = observe_batch(std::slice::from_ref(&c.attrs), c.level, &c.targets);
        if counting {
            run.label(&format!("sampled/{:?}/{}", c.level, shape_class(&c.attrs)));
            run.nontrivial(hash_of(&(serde_json::to_string(&c.attrs).unwrap_or_default(), c.level, &c.targets)));
            run.sample("sampled", 3, || json!({"source": node_src(0, c.level, &c.attrs), "targets": c.targets, "rule_says_keep": keep(&c.attrs, &c.targets), "typeshare_kept": got[0]}));
        }
        judge(&c.attrs, c.level, &c.targets, got[0]).into_iter().collect()
    }
    fn render(&self, c: &Case) -> serde_json::Value {
        json!({"source": node_src(0, c.level, &c.attrs), "targets": c.targets})
    }
}

fn exhaustive(run: &Run, exprs: &[Cfg], targets: &[Vec<String>], levels: &[Level], label: &str) {
    let n = threads();
    let chunk = (exprs.len() + n - 1) / n;
    std::thread::scope(|sc| {
        for part in exprs.chunks(chunk.max(1)) {
            sc.spawn(move || {
                for batch in part.chunks(400) {
                    let nodes: Vec<Vec<Cfg>> = batch.iter().map(|e| vec![e.clone()]).collect();
                    for &level in levels {
                        if level == Level::File {
                            continue;
                        }
                        for t in targets {
                            let got = observe_batch(&nodes, level, t);
                            for (attrs, g) in nodes.iter().zip(got.iter()) {
                                if let Some(v) = judge(attrs, level, t, *g) {
                                    for v in run.triage(vec![v], true) {
                                        run.record_violation("c13-sampled", &v, serde_json::to_value(Case { attrs: attrs.clone(), level, targets: t.clone() }).unwrap(), json!({"source": node_src(0, level, attrs), "targets": t}));
                                    }
                                }
                            }
                            run.count_eval(nodes.len() as u64);
                        }
                    }
                    for e in batch {
                        // non-trivial: a `not` together with a combinator
                        if shape_class(std::slice::from_ref(e)).contains("not+combinator") {
                            run.nontrivial(hash_of(&e.rust()));
                        }
                    }
                }
            });
        }
    });
    run.label_n(label, (exprs.len() * targets.len() * levels.iter().filter(|l| **l != Level::File).count()) as u64);
}

/// real binary: the --target-os flag on sampled cases (one tree per case)
fn cli_family(run: &Run, n: usize) {
    if !cli::bin_available() {
        run.inconclusive("typeshare binary not built");
        return;
    }
    let cases: Vec<Case> = sample_values(&C13.strategy(run.tier), fnv(&[&run.seed.to_le_bytes(), b"c13cli"]), n);
    let w = Worker::new("C13cli", 0);
    for (k, c) in cases.iter().enumerate() {
        if c.targets.is_empty() || c.targets.iter().any(|t| t.is_empty()) {
            continue;
        }
        let root = cli::fresh_dir(&w.scratch, &format!("c{k}"));
        let tree = root.join("tree");
        // an inline module carrying the same cfg attributes: the statement lists files, types, variants and fields as
        // guardable; an annotated item inside such a module has no target_os predicate of its own and is always kept
        let cfg_mod = format!("{}pub mod cfg_mod {{\n    #[typeshare]\n    pub struct InsideCfgMod {{ pub y: u8 }}\n}}\n", attrs_src(&c.attrs, false));
        cli::write_tree(&tree, &[("c1/src/lib.rs".into(), format!("{}\n#[typeshare]\npub struct AlwaysThere {{ pub x: u8 }}\n{}", if c.level == Level::File { String::new() } else { node_src(0, c.level, &c.attrs) }, cfg_mod).into_bytes()), ("c1/src/guarded_file.rs".into(), if c.level == Level::File { node_src(0, c.level, &c.attrs).into_bytes() } else { b"// nothing\n".to_vec() })]);
        // a third of the field-level cases: the guarded field has a type typeshare cannot translate. A field the target
        // list compiles out must simply be left out; nothing about it may make the run fail
        let untranslatable = k % 3 == 0 && matches!(c.level, Level::Field | Level::VariantField) && !keep(&c.attrs, &c.targets);
        if untranslatable {
            let lib = tree.join("c1/src/lib.rs");
            let text = std::fs::read_to_string(&lib).unwrap_or_default();
            let wide = ["guarded: u64", "guarded: (u8, String)", "guarded: usize", "guarded: i64"][(k / 3) % 4];
            std::fs::write(&lib, text.replace("pub guarded: u8", &format!("pub {wide}")).replace(" guarded: u8", &format!(" {wide}"))).unwrap();
        }
        let folder = k % 2 == 1;
        let out = if folder { root.join("outdir").join("c1.ts") } else { root.join("out.ts") };
        if folder {
            std::fs::create_dir_all(root.join("outdir")).unwrap();
        }
        let args: Vec<String> = vec!["--lang".into(), "typescript".into(), if folder { "-d".into() } else { "-o".into() }, if folder { root.join("outdir").to_string_lossy().into_owned() } else { out.to_string_lossy().into_owned() }, tree.to_string_lossy().into_owned(), "--target-os".into(), c.targets.join(",")];
        // clap: `--target-os a,b` is one value; the CLI splits nothing itself, so pass one flag per value
        let mut args2: Vec<String> = args[..5].to_vec();
        args2.push("--target-os".into());
        for t in &c.targets {
            args2.push(t.clone());
        }
        let r = cli::run(&args2, &root, &[], Duration::from_secs(15));
        run.count_eval(1);
        if !r.ok() {
            run.label(&format!("cli/exit={:?}", r.code));
            if untranslatable && !r.timed_out && !r.panicked() {
                let v = Violation::new(format!("cli/{:?}/compiled-out-field-still-makes-the-run-fail", c.level), format!("level {:?}, targets {:?}: the guarded field is compiled out by the target list, yet the run fails (exit {:?}) over its type: {}", c.level, c.targets, r.code, r.stderr.lines().rev().take(2).collect::<Vec<_>>().join(" | ")));
                for v in run.triage(vec![v], true) {
                    run.record_violation("c13-sampled", &v, serde_json::to_value(c).unwrap(), json!({"source": std::fs::read_to_string(tree.join("c1/src/lib.rs")).unwrap_or_default(), "targets": c.targets, "args": args2}));
                }
            }
            continue;
        }
        if untranslatable {
            run.label("cli/compiled-out-untranslatable-field");
        }
        let text = std::fs::read_to_string(&out).unwrap_or_default();
        let got = match c.level {
            Level::File | Level::Struct | Level::Enum | Level::Alias => text.contains("N0"),
            Level::Const => text.contains("N0"),
            Level::Variant => text.contains("Guarded"),
            Level::Field | Level::VariantField => text.contains("guarded"),
        };
        run.label(if folder { "cli/compared/folder-mode" } else { "cli/compared/single-file" });
        for always in ["AlwaysThere", "InsideCfgMod"] {
            if !text.contains(always) {
                let v = Violation::new(format!("cli/{}/item-without-predicate-dropped/{}", if folder { "folder" } else { "single" }, always), format!("`{always}` carries no target_os predicate of its own but is missing from the output (targets {:?}, mode {})", c.targets, if folder { "folder" } else { "single file" }));
                for v in run.triage(vec![v], true) {
                    run.record_violation("c13-sampled", &v, serde_json::to_value(c).unwrap(), json!({"source": format!("{}{}", node_src(0, c.level, &c.attrs), cfg_mod), "targets": c.targets, "args": args2}));
                }
            }
        }
        if let Some(v) = judge(&c.attrs, c.level, &c.targets, Some(got)) {
            let v = Violation::new(format!("cli/{}", v.sig), v.detail);
            for v in run.triage(vec![v], true) {
                run.record_violation("c13-sampled", &v, serde_json::to_value(c).unwrap(), json!({"source": node_src(0, c.level, &c.attrs), "targets": c.targets, "args": args2}));
            }
        }
        let _ = std::fs::remove_dir_all(&root);
    }
}

pub fn run(run: &Run) {
    ts::install_panic_hook();
    run.set_rule("cfg expressions over any / all / not with leaves target_os = a|b|c, feature = \"f\", bare word unix: ENUMERATED EXHAUSTIVELY to nesting depth 3 (leaf = depth 1) with arity <= 2 over the full leaf alphabet (10 080 expressions) x all 16 target lists over {a,b,c,d} (empty list = flag absent) x the levels struct, enum, alias, const, variant, field, struct-variant field; thorough adds depth 4 over the reduced alphabet {a, b, feature} (7.38 M expressions) x the 8 target lists over {a,b,d} at struct level; plus proptest draws of 1-3 separate #[cfg] attributes per node with expressions to depth 6 and arity 0-3 (more OS names, more bare words), all 8 levels incl. inner file attributes, target lists with duplicates; plus sampled cases through the real --target-os flag. Oracle: the documented rule evaluated on the harness's own tree (OS names under any `not` must be absent from T; if any OS is named outside `not`, one of them must be in T; all cfg attributes of a node pooled; other predicates never exclude). Non-trivial = a `not` combined with a combinator, several attributes, or a non-type level.");
    run.assume("several #[cfg] attributes on one node are pooled into one accept / reject set (that is how the statement's 'guarded by cfg(...)' is read)");
    replay_regress(run, &C13);
    let d3 = enumerate(3, true);
    run.extra("exhaustive_expressions_depth3", json!(d3.len()));
    let t16 = all_target_lists(&["a", "b", "c", "d"]);
    exhaustive(run, &d3, &t16, &[Level::Struct, Level::Enum, Level::Alias, Level::Const, Level::Variant, Level::Field, Level::VariantField], "exhaustive/depth3");
    run.set_exhaustive(true);
    let mut scope = format!("depth <= 3, arity <= 2, full alphabet ({} expressions) x 16 target lists x 7 levels", d3.len());
    if run.tier == Tier::Thorough {
        // depth 4, reduced alphabet, streamed
        let d3r = enumerate(3, false);
        let t8 = all_target_lists(&["a", "b", "d"]);
        let mut total = 0usize;
        let mut buf: Vec<Cfg> = vec![];
        let mut flush = |buf: &mut Vec<Cfg>, total: &mut usize| {
            if !buf.is_empty() {
                *total += buf.len();
                exhaustive(run, buf, &t8, &[Level::Struct], "exhaustive/depth4-reduced");
                buf.clear();
            }
        };
        for x in &d3r {
            buf.push(Cfg::Not(vec![x.clone()]));
            buf.push(Cfg::Any(vec![x.clone()]));
            buf.push(Cfg::All(vec![x.clone()]));
            for y in &d3r {
                buf.push(Cfg::Any(vec![x.clone(), y.clone()]));
                buf.push(Cfg::All(vec![x.clone(), y.clone()]));
            }
            if buf.len() >= 200_000 {
                flush(&mut buf, &mut total);
            }
        }
        flush(&mut buf, &mut total);
        run.extra("exhaustive_expressions_depth4_reduced", json!(total));
        scope.push_str(&format!("; depth 4 over {{a, b, feature}} ({} new expressions) x 8 target lists at struct level", total));
    }
    run.extra("exhaustive_scope", json!(scope));
    search(run, &C13, run.tier.pick(30_000, 600_000));
    cli_family(run, run.tier.pick(250, 2500));    if run.tier == Tier::Thorough {
        crate::fuzz::campaign(run, "c13_cfg", 1_000_000, 256);
    }
}

pub fn replay(run: &Run, case: &serde_json::Value) -> Result<Vec<Violation>, String> {
    ts::install_panic_hook();
    replay_case(run, &C13, case)
}
