//! C14, name-resolution family: the same type name defined in two crates, relative paths (`crate::`, `self::`, `super::`)
//! inside a crate, and generic parameters that happen to be spelled like a type of another crate. The partition and the
//! imports must follow Rust's scoping: a relative path never leaves the crate, a generic parameter is not a reference, and
//! an explicit `use other_crate::Name` is.
use crate::cli;
use crate::common::*;
use crate::obs::*;
use crate::observe::observe;
use crate::ts::{Cfg, Lang};
use crate::ws;
use proptest::prelude::*;
use serde::{Deserialize, Serialize};
use serde_json::json;
use std::time::Duration;

#[derive(Clone, Debug, Serialize, Deserialize)]
pub struct Case {
    pub lang: Lang,
    /// directory names of the two crates (A defines the foreign types, B is the crate under test)
    pub crate_a: String,
    pub crate_b: String,
    /// name shared by a type of A and an unrelated type of B
    pub clash: String,
    /// how B's lib.rs names B's own clash type (which lives in settings.rs): 0 `use crate::..`, 1 `use self::..`,
    /// 2 qualified `crate::settings::X`, 3 qualified `self::settings::X`, 4 grouped `use self::{settings::X}`, 5 `use crate::settings;` + `settings::X`
    pub lib_form: u8,
    /// how B's net/mod.rs names it: 0 `use crate::..`, 1 `use super::..`, 2 qualified `super::settings::X`, 3 `crate::..`
    pub net_form: u8,
    /// B's net/mod.rs also names a type of its child module through `self::leaf::Leaf` (A has a `Leaf` too)
    pub child_ref: bool,
    /// B has a generic item whose parameter is spelled like `imported`, next to an item that really imports it from A
    pub generic_shadow: bool,
    /// the A type that B really imports (explicit `use crate_a::<imported>`)
    pub imported: String,
    /// generic item before / after the importing item in the file
    pub generic_first: bool,
    /// the workspace sits below a directory that is itself called `src` (~/src/checkout/<crate>/src/lib.rs)
    #[serde(default)]
    pub src_ancestor: bool,
    /// (C06's determinism family only) one more file of B imports A's type of the clashing name explicitly, next to B's own
    /// type of that name in another file; which of the two the flattened per-crate output means is not judged, only that
    /// it does not depend on arrival order
    #[serde(default)]
    pub explicit_foreign_clash: bool,
    /// B also has `use crate_a::*;` and A's type of the clashing name is serde-renamed: B's own type shadows the glob, so
    /// B's references keep naming B's definition
    #[serde(default)]
    pub glob_and_rename: bool,
}

const NAMES: &[&str] = &["Settings", "Endpoint", "Item", "Value", "Failure", "Config", "Money", "Node"];

impl Case {
    fn a(&self) -> String {
        ws::Workspace::crate_name_of(&self.crate_a)
    }
    pub fn tree(&self) -> Vec<(String, Vec<u8>)> {
        let hdr = "use serde::{Deserialize, Serialize};\nuse typeshare::typeshare;\n";
        let x = &self.clash;
        let imp = &self.imported;
        let mut files: Vec<(String, String)> = vec![];
        let rename_attr = if self.glob_and_rename { format!("#[serde(rename = \"Remote{x}\")]\n") } else { String::new() };
        // crate A: its own version of the clash type, the imported type, a Leaf
        files.push((
            format!("{}/src/lib.rs", self.crate_a),
            format!("{hdr}\n#[typeshare]\n#[derive(Serialize, Deserialize)]\n{rename_attr}pub struct {x} {{\n    pub only_in_a: bool,\n}}\n\n#[typeshare]\n#[derive(Serialize, Deserialize)]\npub struct {imp} {{\n    pub amount: u32,\n}}\n\n#[typeshare]\n#[derive(Serialize, Deserialize)]\npub struct Leaf {{\n    pub leaf_of_a: String,\n}}\n"),
        ));
        // crate B
        let (lib_use, lib_ty) = match self.lib_form % 6 {
            // the module is imported, the type named through it (`use crate::settings;` + `settings::X`)
            5 => ("use crate::settings;\n".to_string(), format!("settings::{x}")),
            0 => (format!("use crate::settings::{x};\n"), x.clone()),
            1 => (format!("use self::settings::{x};\n"), x.clone()),
            2 => (String::new(), format!("crate::settings::{x}")),
            3 => (String::new(), format!("self::settings::{x}")),
            _ => (format!("use self::{{settings::{x}}};\n"), x.clone()),
        };
        let mut lib = format!("pub mod net;\npub mod settings;\n\n{hdr}{lib_use}use {}::{imp};\n{}", self.a(), if self.glob_and_rename { format!("use {}::*;\n", self.a()) } else { String::new() });
        let cart = format!("\n#[typeshare]\n#[derive(Serialize, Deserialize)]\npub struct Cart {{\n    pub entries: Vec<{imp}>,\n}}\n");
        let page = format!("\n#[typeshare]\n#[derive(Serialize, Deserialize)]\npub struct Page<{imp}> {{\n    pub rows: Vec<{imp}>,\n    pub total: u32,\n}}\n");
        if self.generic_shadow && self.generic_first {
            lib.push_str(&page);
        }
        lib.push_str(&cart);
        if self.generic_shadow && !self.generic_first {
            lib.push_str(&page);
        }
        if self.crate_b == "codable" {
            // Swift's folder mode also writes a shared `Codable.swift` when `()` is used: the crate's own file has that name
            lib.push_str("\n#[typeshare]\n#[derive(Serialize, Deserialize)]\npub struct UsesUnit {\n    pub nothing: (),\n}\n");
        }
        lib.push_str(&format!("\n#[typeshare]\n#[derive(Serialize, Deserialize)]\npub struct App {{\n    pub name: String,\n    pub settings: {lib_ty},\n}}\n"));
        files.push((format!("{}/src/lib.rs", self.crate_b), lib));
        files.push((format!("{}/src/settings.rs", self.crate_b), format!("{hdr}\n#[typeshare]\n#[derive(Serialize, Deserialize)]\npub struct {x} {{\n    pub only_in_b: u32,\n}}\n")));
        let (net_use, net_ty) = match self.net_form % 4 {
            0 => (format!("use crate::settings::{x};\n"), x.clone()),
            1 => (format!("use super::settings::{x};\n"), x.clone()),
            2 => (String::new(), format!("super::settings::{x}")),
            _ => (String::new(), format!("crate::settings::{x}")),
        };
        let mut net = format!("pub mod leaf;\n\n{hdr}{net_use}\n#[typeshare]\n#[derive(Serialize, Deserialize)]\npub struct Route {{\n    pub via: Option<{net_ty}>,\n");
        if self.child_ref {
            net.push_str("    pub to: Vec<self::leaf::Leaf>,\n");
        }
        net.push_str("}\n");
        files.push((format!("{}/src/net/mod.rs", self.crate_b), net));
        files.push((format!("{}/src/net/leaf.rs", self.crate_b), format!("{hdr}\n#[typeshare]\n#[derive(Serialize, Deserialize)]\npub struct Leaf {{\n    pub leaf_of_b: u8,\n}}\n")));
        if self.explicit_foreign_clash {
            files.push((format!("{}/src/remote_user.rs", self.crate_b), format!("use {}::{x};\n{hdr}\n#[typeshare]\n#[derive(Serialize, Deserialize)]\npub struct RemoteUser {{\n    pub theirs: {x},\n    pub many: Vec<{x}>,\n}}\n", self.a())));
        }
        files.into_iter().map(|(p, t)| (p, t.into_bytes())).collect()
    }
}

pub struct C14Scope;
impl SubCheck for C14Scope {
    type Case = Case;
    fn name(&self) -> &'static str {
        "c14-scoping"
    }
    fn strategy(&self, _tier: Tier) -> BoxedStrategy<Case> {
        let dirs = prop_oneof![Just(("crate_a", "crate_b")), Just(("zeta-types", "app")), Just(("api", "core-types")), Just(("shared_models", "x-y-z")), Just(("shared_models", "codable"))];
        (ws::lang_strategy(), dirs, proptest::sample::subsequence(NAMES.to_vec(), 2..=2).prop_shuffle(), 0u8..6, 0u8..4, any::<bool>(), any::<bool>(), any::<bool>(), any::<bool>(), any::<bool>())
            .prop_map(|(lang, (a, b), names, lib_form, net_form, child_ref, generic_shadow, generic_first, src_ancestor, glob_and_rename)| Case {
                lang,
                crate_a: a.to_string(),
                crate_b: b.to_string(),
                clash: names[0].to_string(),
                imported: names[1].to_string(),
                lib_form,
                net_form,
                child_ref,
                generic_shadow,
                generic_first,
                src_ancestor,
                explicit_foreign_clash: false,
                glob_and_rename,
            })
            .boxed()
    }
    fn eval(&self, run: &Run, c: &Case, w: &mut Worker, counting: bool) -> Vec<Violation> {
        let mut out = vec![];
        let lang = c.lang;
        let root = cli::fresh_dir(&w.scratch, "c14s");
        let tree = if c.src_ancestor { root.join("src").join("checkout").join("tree") } else { root.join("tree") };
        cli::write_tree(&tree, &c.tree());
        let outd = root.join("out");
        std::fs::create_dir_all(&outd).unwrap();
        let mut args = cli::lang_args(lang, &Cfg::plain());
        args.extend(["-d".into(), outd.to_string_lossy().into_owned(), tree.to_string_lossy().into_owned()]);
        let r = cli::run(&args, &root, &[], Duration::from_secs(20));
        let form = format!("lib={}/net={}/child={}/generic={}{}", c.lib_form % 6, c.net_form % 4, c.child_ref, if c.generic_shadow { if c.generic_first { "first" } else { "after" } } else { "none" }, if c.src_ancestor { "/workspace-below-a-directory-named-src" } else { "" });
        if counting {
            run.label(&format!("c14s/{}/lib-form={}", lang.short(), c.lib_form % 6));
            run.label(&format!("c14s/net-form={}", c.net_form % 4));
            run.label(&format!("c14s/generic-shadow={}", c.generic_shadow));
            run.nontrivial(hash_of(&(serde_json::to_string(c).unwrap_or_default(),)));
            run.sample("scoping-workspace", 2, || json!({"lang": lang.name(), "files": c.tree().iter().map(|(p, t)| json!({"path": p, "content": String::from_utf8_lossy(t)})).collect::<Vec<_>>()}));
        }
        if !r.ok() {
            if counting {
                run.label(&format!("c14s/not-generated/{}/exit={:?}", lang.short(), r.code));
            }
            let _ = std::fs::remove_dir_all(&root);
            return out;
        }
        let a = c.a();
        let b = ws::Workspace::crate_name_of(&c.crate_b);
        let produced = cli::read_tree(&outd);
        let mut fa = None;
        let mut fb = None;
        let mut text_b = String::new();
        for (name, bytes) in &produced {
            if name == "Codable.swift" {
                continue;
            }
            let stem = name.rsplit_once('.').map(|(s, _)| s.to_string()).unwrap_or(name.clone());
            match observe(lang, &String::from_utf8_lossy(bytes), w, false) {
                Ok(o) => {
                    if crate::prog::norm(&stem) == crate::prog::norm(&a) {
                        fa = Some(o.file);
                    } else if crate::prog::norm(&stem) == crate::prog::norm(&b) {
                        fb = Some(o.file);
                        text_b = String::from_utf8_lossy(bytes).into_owned();
                    }
                }
                Err(_) => {
                    if counting {
                        run.label(&format!("c14s/unobservable/{}", lang.short()));
                    }
                    let _ = std::fs::remove_dir_all(&root);
                    return out;
                }
            }
        }
        let (Some(fa), Some(fb)) = (fa, fb) else {
            out.push(Violation::new(if lang == Lang::Swift && c.crate_b == "codable" { "scoping/swift/partition/crate-file-is-Codable.swift".to_string() } else { format!("scoping/{}/missing-file", lang.short()) }, format!("{}: expected one output file for `{a}` and one for `{b}`, found {:?}", lang.name(), produced.iter().map(|x| &x.0).collect::<Vec<_>>())));
            let _ = std::fs::remove_dir_all(&root);
            return out;
        };
        // partition: each crate's file holds its own version of the clashing names
        let has_field = |f: &OFile, decl: &str, field: &str| f.decls.iter().filter(|d| d.name == decl).any(|d| d.fields.iter().any(|x| crate::prog::norm(&x.ident) == crate::prog::norm(field) || x.key == field));
        let count = |f: &OFile, decl: &str| f.decls.iter().filter(|d| d.name == decl && d.kind != OKind::Helper).count();
        let a_clash_name = if c.glob_and_rename { format!("Remote{}", c.clash) } else { c.clash.clone() };
        for (file, which, decl, field) in [(&fa, &a, a_clash_name.as_str(), "only_in_a"), (&fb, &b, c.clash.as_str(), "only_in_b"), (&fa, &a, "Leaf", "leaf_of_a"), (&fb, &b, "Leaf", "leaf_of_b")] {
            if count(file, decl) != 1 || !has_field(file, decl, field) {
                out.push(Violation::new(
                    if lang == Lang::Swift && c.crate_b == "codable" { "scoping/swift/partition/crate-file-is-Codable.swift".to_string() } else { format!("scoping/{}/partition/same-name-in-two-crates", lang.short()) },
                    format!("{}: `{which}` must define its own `{decl}` (field `{field}`) exactly once; found {} definition(s) named `{decl}` there ({form})", lang.name(), count(file, decl)),
                ));
            }
        }
        // (import lines aside: a glob import brings in every type of `a` by design)
        let body_b: String = text_b.lines().filter(|l| !l.trim_start().starts_with("import ") && !l.trim_start().starts_with("from ")).collect::<Vec<_>>().join("\n");
        if c.glob_and_rename && body_b.contains(&format!("Remote{}", c.clash)) {
            out.push(Violation::new(
                format!("scoping/{}/reference-renamed-after-a-glob-imported-type", lang.short()),
                format!("{}: `{b}` has its own `{}` (and names it by relative paths), yet its output spells a reference `Remote{}`, the serde name of the type of `{a}` that `use {a}::*` would bring in if it were not shadowed ({form})", lang.name(), c.clash, c.clash),
            ));
        }
        // imports (TS, Kotlin): B imports exactly `imported` from A and nothing else; A imports nothing
        if matches!(lang, Lang::TypeScript | Lang::Kotlin) {
            let imported_names = |f: &OFile| -> Vec<(String, String)> { f.imports.iter().filter(|i| !i.module.starts_with("kotlinx.")).flat_map(|i| i.names.iter().map(move |n| (i.module.clone(), n.clone()))).collect() };
            let ib = imported_names(&fb);
            let from_a = |m: &str| match lang {
                Lang::TypeScript => m == format!("./{a}"),
                _ => m.ends_with(&format!(".{a}")),
            };
            if !ib.iter().any(|(m, n)| from_a(m) && *n == c.imported) {
                out.push(Violation::new(
                    format!("scoping/{}/import-missing/{}", lang.short(), if c.generic_shadow { "generic-parameter-of-another-item-has-the-same-spelling" } else { "plain" }),
                    format!("{}: `{b}` uses `{}` of `{a}` (explicit `use`) but does not import it; imports: {:?} ({form})", lang.name(), c.imported, ib),
                ));
            }
            for (m, n) in &ib {
                if from_a(m) && (*n == c.imported || c.glob_and_rename) {
                    continue; // with `use a::*` typeshare imports every type of `a`, used or not
                }
                let local = fb.decls.iter().any(|d| d.name == *n);
                out.push(Violation::new(
                    format!("scoping/{}/spurious-import/{}{}", lang.short(), if local { "name-is-defined-in-the-importing-file" } else { "other" }, if c.lib_form % 6 == 5 && *n == c.clash { "/named-through-an-imported-module-of-the-own-crate" } else { "" }),
                    format!("{}: `{b}` imports `{n}` from `{m}` although every path naming it is relative to the own crate ({form})", lang.name()),
                ));
            }
            for (m, n) in imported_names(&fa) {
                out.push(Violation::new(format!("scoping/{}/spurious-import/crate-without-references", lang.short()), format!("{}: `{a}` refers to nothing outside itself but imports `{n}` from `{m}`", lang.name())));
            }
        }
        let _ = std::fs::remove_dir_all(&root);
        out.sort_by(|x, y| x.sig.cmp(&y.sig));
        out.dedup_by(|x, y| x.sig == y.sig);
        out
    }
    fn render(&self, c: &Case) -> serde_json::Value {
        json!({"lang": c.lang.name(), "files": c.tree().iter().map(|(p, t)| json!({"path": p, "content": String::from_utf8_lossy(t)})).collect::<Vec<_>>()})
    }
}

pub fn run_family(run: &Run) {
    replay_regress(run, &C14Scope);
    search(run, &C14Scope, run.tier.pick(400, 6000));
}

pub fn replay(run: &Run, case: &serde_json::Value) -> Result<Vec<Violation>, String> {
    replay_case(run, &C14Scope, case)
}
