//! proptest strategies that construct programs (never by rejection: every generated case is in-domain).
use crate::model::*;
use proptest::prelude::*;
use proptest::sample::{select, subsequence};
use std::sync::Arc;

pub const ITEM_NAMES: &[&str] = &[
    "Alpha", "Bravo", "Charlie", "Delta", "Echo", "Foxtrot", "Golf", "Hotel", "India", "Juliet", "Kilo", "Lima", "Mike", "November",
    "Oscar", "Papa", "Quebec", "Romeo", "Sierra", "Tango", "Uniform", "Victor", "Whiskey", "Xray", "Yankee", "Zulu", "HttpRequest",
    "IdCard", "Item2", "UserProfile", "AccountId", "RawHttp",
];
pub const VARIANT_NAMES: &[&str] =
    &["First", "Second", "Third", "WithData", "Http2Frame", "V2", "A", "Empty", "SomeLongVariantName", "Node", "Leaf", "Ok2", "Default", "Case", "IOError", "XMLDocument", "HTTPStatus"];
pub const FIELD_NAMES: &[&str] = &[
    "id", "name", "value", "count", "user_id", "created_at", "is_active", "first_name", "a", "b2", "x", "long_field_name_here", "item_list",
    "payload", "kind", "data", "flag", "total_count_2", "k8s_cluster", "use_2fa", "p2p_port", "x_y_offset", "r_g_b",
];
/// Rust keywords usable only as raw identifiers
pub const RAW_FIELD_NAMES: &[&str] = &[
    "type", "match", "in", "ref", "fn", "mod", "use", "loop", "move", "impl", "where", "as", "dyn", "async", "await", "yield", "box", "final",
    "override", "typeof", "abstract", "do", "try", "struct", "enum", "trait", "const", "static", "if", "else", "for", "while", "let", "return",
    "break", "continue", "true", "false",
];
/// target-language keywords that are plain identifiers in Rust
pub const TARGET_KW_FIELD_NAMES: &[&str] = &[
    "class", "val", "var", "default", "func", "object", "def", "from", "import", "is", "protocol", "internal", "case", "fun", "package",
    "interface", "when", "private", "public", "switch", "guard", "init", "operator", "lambda", "pass", "global", "with", "not", "and", "or",
    "del", "elif", "except", "raise", "assert", "nonlocal", "readonly", "extends", "sealed", "this",
];
pub const RENAME_VALUES: &[&str] = &[
    "userId", "user-id", "X-Request-Id", "class", "default", "type", "_private", "UPPER_CASE", "a-b-c", "kebab-case-name", "content", "tag",
    "Value", "camelCaseName", "snake_case_name", "x", "A1", "with-dash-2", "in", "self", "avatarUrl", "SessionId", "if-match",
];
pub const KEY_NAMES: &[&str] = &["type", "content", "t", "c", "kind", "data", "case", "class", "default", "tag", "value", "payload", "event_payload", "Body", "kindId", "payloadUrl"];
pub const RULES: [&str; 8] = crate::c16::RULES;
pub const GENERIC_NAMES: &[&str] = &["T", "U", "K", "V"];
pub const MOD_NAMES: &[&str] = &["inner", "models", "api", "v1"];

#[derive(Clone, Debug)]
pub struct GenCfg {
    pub min_items: usize,
    pub max_items: usize,
    /// weights: struct, newtype struct, unit struct, unit enum, tagged enum, alias, const
    pub kinds: [u32; 7],
    pub field_renames: bool,
    pub rename_all: bool,
    pub unknown_rule: bool,
    pub item_renames: bool,
    pub generics: bool,
    pub skips: bool,
    pub decoys: bool,
    pub defaults: bool,
    pub ty_depth: u32,
    pub wrappers: bool,
    pub unit_type: bool,
    pub cross_refs: bool,
    pub self_refs: bool,
    pub unannotated: bool,
    pub mods: bool,
    pub kw_fields: bool,
    pub layouts: bool,
    pub decorators: bool,
    pub benign_docs: bool,
    pub variant_renames: bool,
    pub custom_keys: bool,
    pub max_fields: usize,
    pub max_variants: usize,
    pub readonly: bool,
    pub keyword_item_names: bool,
    /// item names that are legal Rust but not UpperCamelCase (`user_id`, `_LegacyTag`)
    pub odd_item_names: bool,
    /// field identifiers that are not lower-case but whose snake_case form is a target keyword (`From`, `Class`)
    pub capital_kw_fields: bool,
    /// foreign (not typeshared) type names usable in type expressions: Uuid, ForeignThing, ForeignGen<T>
    pub foreign_types: bool,
    /// items may only reference items that come earlier in a hidden order (acyclic reference graph)
    pub dag: bool,
}
impl GenCfg {
    pub fn base() -> GenCfg {
        GenCfg {
            min_items: 1,
            max_items: 5,
            kinds: [5, 1, 1, 2, 3, 2, 0],
            field_renames: true,
            rename_all: true,
            unknown_rule: false,
            item_renames: false,
            generics: true,
            skips: false,
            decoys: false,
            defaults: true,
            ty_depth: 3,
            wrappers: true,
            unit_type: true,
            cross_refs: true,
            self_refs: true,
            unannotated: false,
            mods: false,
            kw_fields: true,
            layouts: true,
            decorators: false,
            benign_docs: false,
            variant_renames: true,
            custom_keys: true,
            max_fields: 5,
            max_variants: 5,
            readonly: false,
            keyword_item_names: false,
            odd_item_names: false,
            capital_kw_fields: false,
            foreign_types: false,
            dag: false,
        }
    }
}

#[derive(Clone, Debug)]
pub struct TyCtx {
    /// referencable user types: (name, generic arity, usable as map key)
    pub users: Vec<(String, usize, bool)>,
    pub params: Vec<String>,
    pub wrappers: bool,
    pub unit: bool,
}

fn prim_leaf(unit: bool) -> BoxedStrategy<Ty> {
    let mut v: Vec<Prim> = ALL_PRIMS.to_vec();
    if !unit {
        v.retain(|p| *p != Prim::Unit);
    }
    select(v).prop_map(Ty::Prim).boxed()
}

fn key_leaf(ctx: &TyCtx) -> BoxedStrategy<Ty> {
    let mut alts: Vec<Ty> = vec![Ty::Prim(Prim::String), Ty::Prim(Prim::String), Ty::Prim(Prim::Str), Ty::Prim(Prim::I32), Ty::Prim(Prim::U32), Ty::Prim(Prim::U8)];
    for (n, ar, key) in &ctx.users {
        if *key && *ar == 0 {
            alts.push(Ty::user(n));
        }
    }
    select(alts).boxed()
}

/// type expressions up to `depth` over the full alphabet
pub fn ty_strategy(ctx: &TyCtx, depth: u32) -> BoxedStrategy<Ty> {
    let ctx = Arc::new(ctx.clone());
    let mut leaf_alts: Vec<(u32, BoxedStrategy<Ty>)> = vec![(6, prim_leaf(ctx.unit))];
    let simple_users: Vec<Ty> = ctx.users.iter().filter(|u| u.1 == 0).map(|u| Ty::user(&u.0)).collect();
    if !simple_users.is_empty() {
        leaf_alts.push((4, select(simple_users).boxed()));
    }
    if !ctx.params.is_empty() {
        leaf_alts.push((2, select(ctx.params.clone()).prop_map(Ty::Param).boxed()));
    }
    let leaf = proptest::strategy::Union::new_weighted(leaf_alts).boxed();
    let mut level = leaf.clone();
    for _ in 0..depth {
        let inner = level.clone();
        let mut alts: Vec<(u32, BoxedStrategy<Ty>)> = vec![
            (8, leaf.clone()),
            (3, inner.clone().prop_map(|t| Ty::Vec(Box::new(t))).boxed()),
            (3, inner.clone().prop_map(|t| Ty::Opt(Box::new(t))).boxed()),
            (2, (key_leaf(&ctx), inner.clone()).prop_map(|(k, v)| Ty::Map(Box::new(k), Box::new(v))).boxed()),
            (1, (inner.clone(), 1usize..4).prop_map(|(t, n)| Ty::Array(Box::new(t), n)).boxed()),
            (1, inner.clone().prop_map(|t| Ty::Slice(Box::new(t))).boxed()),
        ];
        if ctx.wrappers {
            alts.push((2, (select(ALL_WRAPPERS.to_vec()), inner.clone()).prop_map(|(w, t)| Ty::Wrap(w, Box::new(t))).boxed()));
            alts.push((1, inner.clone().prop_map(|t| Ty::Ref(Box::new(t))).boxed()));
            alts.push((
                1,
                inner.clone().prop_map(|t| match &t {
                    Ty::Vec(ref i) => Ty::Qual(if i.rust().len() % 3 == 0 { vec!["alloc".into(), "vec".into()] } else { vec!["std".into(), "vec".into()] }, Box::new(t)),
                    Ty::Map(ref k, _) if k.rust().len() % 3 == 0 => Ty::Qual(vec!["@hasher".into()], Box::new(t)),
                    Ty::Map(..) => Ty::Qual(vec!["std".into(), "collections".into()], Box::new(t)),
                    // `std::`, `core::`, the absolute `::core::` (macro-generated code) and a `use std::option;` style path
                    Ty::Opt(ref i) => Ty::Qual(
                        match i.rust().len() % 4 {
                            0 => vec!["std".into(), "option".into()],
                            1 => vec!["core".into(), "option".into()],
                            2 => vec!["".into(), "core".into(), "option".into()],
                            _ => vec!["option".into()],
                        },
                        Box::new(t),
                    ),
                    Ty::User { .. } => Ty::Qual(vec!["crate".into(), "types".into()], Box::new(t)),
                    Ty::Prim(Prim::String) => Ty::Qual(vec!["std".into(), "string".into()], Box::new(t)),
                    Ty::Prim(Prim::I54 | Prim::U53) => Ty::Qual(vec!["typeshare".into()], Box::new(t)),
                    Ty::Prim(Prim::Unit | Prim::Str) => t,
                    Ty::Prim(_) => Ty::Qual(vec![if matches!(t, Ty::Prim(Prim::Bool | Prim::U32)) { "core".into() } else { "std".into() }, "primitive".into()], Box::new(t)),
                    _ => t,
                })
                .boxed(),
            ));
        }
        let gen_users: Vec<(String, usize)> = ctx.users.iter().filter(|u| u.1 > 0).map(|u| (u.0.clone(), u.1)).collect();
        if !gen_users.is_empty() {
            let inner2 = inner.clone();
            alts.push((
                3,
                select(gen_users)
                    .prop_flat_map(move |(n, ar)| {
                        proptest::collection::vec(inner2.clone(), ar..=ar).prop_map(move |args| Ty::User { name: n.clone(), args })
                    })
                    .boxed(),
            ));
        }
        level = proptest::strategy::Union::new_weighted(alts).boxed();
    }
    level
}

fn opt_of<T: Clone + std::fmt::Debug + 'static>(enabled: bool, weight_some: u32, s: BoxedStrategy<T>) -> BoxedStrategy<Option<T>> {
    if !enabled {
        return Just(None).boxed();
    }
    prop_oneof![
        10 - weight_some.min(9) => Just(None),
        weight_some => s.prop_map(Some),
    ]
    .boxed()
}

pub fn rename_value() -> BoxedStrategy<String> {
    prop_oneof![
        3 => select(RENAME_VALUES.to_vec()).prop_map(|s| s.to_string()),
        1 => "[A-Za-z][A-Za-z0-9_-]{0,8}|_[a-z][A-Za-z0-9_-]{0,6}".prop_map(|s| s),
    ]
    .boxed()
}

pub fn rule_value(unknown: bool) -> BoxedStrategy<String> {
    if unknown {
        prop_oneof![9 => select(RULES.to_vec()).prop_map(|s| s.to_string()), 1 => Just("Title Case".to_string())].boxed()
    } else {
        select(RULES.to_vec()).prop_map(|s| s.to_string()).boxed()
    }
}

pub fn benign_doc() -> BoxedStrategy<Doc> {
    prop_oneof![
        select(vec![" A plain comment", " Describes the thing.", " See also: other (1 < 2) & more", " trailing space ", "no leading space", " Matches src/**/*.rs files"]).prop_map(|s| Doc::Line(s.to_string())),
        select(vec![" block doc ", " with `ticks` and 'quotes' "]).prop_map(|s| Doc::Block(s.to_string())),
        select(vec!["attr doc", " quoted \"text\" here"]).prop_map(|s| Doc::Attr(s.to_string())),
    ]
    .boxed()
}

pub fn docs(enabled: bool) -> BoxedStrategy<Vec<Doc>> {
    if !enabled {
        return Just(vec![]).boxed();
    }
    prop_oneof![3 => Just(vec![]), 1 => proptest::collection::vec(benign_doc(), 1..3)].boxed()
}

/// distinct field names
fn field_names(g: &GenCfg, n: usize) -> BoxedStrategy<Vec<(String, bool)>> {
    let mut pool: Vec<(String, bool)> = FIELD_NAMES.iter().map(|s| (s.to_string(), false)).collect();
    if g.kw_fields {
        pool.extend(RAW_FIELD_NAMES.iter().map(|s| (s.to_string(), true)));
        pool.extend(TARGET_KW_FIELD_NAMES.iter().map(|s| (s.to_string(), false)));
    }
    if g.capital_kw_fields {
        pool.extend(["From", "In", "Class", "Is", "Def", "Lambda", "Import", "Func", "Var"].iter().map(|s| (s.to_string(), false)));
    }
    // bias: plain names three times as likely as keyword names
    let plain: Vec<(String, bool)> = FIELD_NAMES.iter().map(|s| (s.to_string(), false)).collect();
    let n_plain = plain.len();
    (subsequence(plain, 0..=n.min(n_plain)), subsequence(pool, n..=n))
        .prop_map(move |(a, b)| {
            let mut out: Vec<(String, bool)> = a;
            for x in b {
                if out.len() >= n {
                    break;
                }
                if !out.iter().any(|y| y.0 == x.0) {
                    out.push(x);
                }
            }
            out.truncate(n);
            out
        })
        .prop_shuffle()
        .boxed()
}

pub fn field_strategy(g: &GenCfg, ctx: &TyCtx, name: (String, bool)) -> BoxedStrategy<Field> {
    let ty = ty_strategy(ctx, g.ty_depth);
    let rename = opt_of(g.field_renames, 3, rename_value());
    let default = if g.defaults {
        prop_oneof![6 => Just(Dflt::None), 2 => Just(Dflt::Bare), 1 => Just(Dflt::Path)].boxed()
    } else {
        Just(Dflt::None).boxed()
    };
    let skip = if g.skips {
        prop_oneof![5 => Just(Skip::None), 1 => Just(Skip::Serde), 1 => Just(Skip::Typeshare)].boxed()
    } else {
        Just(Skip::None).boxed()
    };
    let decoys = if g.decoys {
        prop_oneof![
            3 => Just(vec![]),
            1 => subsequence(vec![Decoy::SkipSerializingIf, Decoy::SkipDeserializing, Decoy::SkipSerializing, Decoy::Alias, Decoy::With], 1..=2),
        ]
        .boxed()
    } else {
        Just(vec![]).boxed()
    };
    let layout = if g.layouts { (0u8..16).boxed() } else { Just(0u8).boxed() };
    let readonly = if g.readonly { prop_oneof![4 => Just(false), 1 => Just(true)].boxed() } else { Just(false).boxed() };
    (ty, rename, default, skip, decoys, docs(g.benign_docs), layout, readonly)
        .prop_map(move |(ty, rename, default, skip, decoys, docs, layout, readonly)| Field {
            name: name.0.clone(),
            raw: name.1,
            ty,
            rename,
            default,
            skip,
            decoys,
            docs,
            cfgs: vec![],
            readonly,
            flatten: false,
            serialized_as: None,
            layout,
            type_override: None,
        })
        .boxed()
}

pub fn fields_strategy(g: &GenCfg, ctx: &TyCtx, min: usize, max: usize) -> BoxedStrategy<Vec<Field>> {
    let g = g.clone();
    let ctx = ctx.clone();
    (min..=max)
        .prop_flat_map(move |n| {
            let g2 = g.clone();
            let ctx2 = ctx.clone();
            field_names(&g, n).prop_flat_map(move |names| names.into_iter().map(|nm| field_strategy(&g2, &ctx2, nm)).collect::<Vec<_>>())
        })
        .boxed()
}

#[derive(Clone, Copy, Debug, PartialEq, Eq)]
pub enum KTag {
    Struct,
    Newtype,
    UnitStruct,
    UnitEnum,
    TaggedEnum,
    Alias,
    Const,
}
const KTAGS: [KTag; 7] = [KTag::Struct, KTag::Newtype, KTag::UnitStruct, KTag::UnitEnum, KTag::TaggedEnum, KTag::Alias, KTag::Const];

#[derive(Clone, Debug)]
pub struct Skel {
    pub name: String,
    pub tag: KTag,
    pub generics: Vec<String>,
}

pub fn skeleton(g: &GenCfg) -> BoxedStrategy<Vec<Skel>> {
    let g = g.clone();
    let kinds: Vec<(u32, BoxedStrategy<KTag>)> =
        KTAGS.iter().zip(g.kinds.iter()).filter(|(_, w)| **w > 0).map(|(k, w)| (*w, Just(*k).boxed())).collect();
    let kind = proptest::strategy::Union::new_weighted(kinds);
    let generics = if g.generics {
        prop_oneof![6 => Just(0usize), 2 => Just(1usize), 1 => Just(2usize)].boxed()
    } else {
        Just(0usize).boxed()
    };
    let mut names: Vec<&'static str> = ITEM_NAMES.to_vec();
    if g.keyword_item_names {
        names.extend(["Type", "Protocol"]);
    }
    if g.odd_item_names {
        names.extend(["user_id", "_LegacyTag", "lowercase", "snake_case_item"]);
    }
    (g.min_items..=g.max_items)
        .prop_flat_map(move |n| {
            (
                subsequence(names.clone(), n..=n).prop_shuffle(),
                proptest::collection::vec((kind.clone(), generics.clone()), n..=n),
            )
        })
        .prop_map(|(names, ks)| {
            names
                .into_iter()
                .zip(ks)
                .map(|(n, (tag, ng))| {
                    let ng = match tag {
                        KTag::Struct | KTag::TaggedEnum | KTag::Alias | KTag::Newtype => ng,
                        _ => 0,
                    };
                    Skel { name: n.to_string(), tag, generics: GENERIC_NAMES[..ng].iter().map(|s| s.to_string()).collect() }
                })
                .collect()
        })
        .boxed()
}

fn variant_names(n: usize) -> BoxedStrategy<Vec<String>> {
    subsequence(VARIANT_NAMES.to_vec(), n..=n).prop_shuffle().prop_map(|v| v.into_iter().map(|s| s.to_string()).collect()).boxed()
}

pub fn variant_strategy(g: &GenCfg, ctx: &TyCtx, name: String, unit_only: bool) -> BoxedStrategy<Variant> {
    let payload: BoxedStrategy<Payload> = if unit_only {
        Just(Payload::Unit).boxed()
    } else {
        let fields = fields_strategy(g, ctx, 1, g.max_fields.min(4));
        prop_oneof![
            2 => Just(Payload::Unit),
            3 => ty_strategy(ctx, g.ty_depth).prop_map(Payload::Newtype),
            3 => (fields, opt_of(g.rename_all, 3, rule_value(g.unknown_rule))).prop_map(|(fields, rename_all)| Payload::Struct { fields, rename_all }),
        ]
        .boxed()
    };
    let skip = if g.skips {
        prop_oneof![6 => Just(Skip::None), 1 => Just(Skip::Serde), 1 => Just(Skip::Typeshare)].boxed()
    } else {
        Just(Skip::None).boxed()
    };
    let layout = if g.layouts { (0u8..16).boxed() } else { Just(0u8).boxed() };
    (payload, opt_of(g.variant_renames, 3, rename_value()), skip, docs(g.benign_docs), layout)
        .prop_map(move |(payload, rename, skip, docs, layout)| Variant { name: name.clone(), rename, skip, payload, docs, cfgs: vec![], layout })
        .boxed()
}

/// item body for one skeleton entry
pub fn item_strategy(g: &GenCfg, skel: &[Skel], idx: usize) -> BoxedStrategy<Item> {
    let me = skel[idx].clone();
    let mut users: Vec<(String, usize, bool)> = vec![];
    if g.cross_refs {
        for (j, s) in skel.iter().enumerate() {
            if s.tag == KTag::Const {
                continue;
            }
            if j == idx && !(g.self_refs && matches!(me.tag, KTag::Struct | KTag::TaggedEnum)) {
                continue;
            }
            if g.dag && j >= idx {
                continue;
            }
            users.push((s.name.clone(), s.generics.len(), s.tag == KTag::UnitEnum));
        }
    }
    if g.foreign_types {
        users.push(("Uuid".into(), 0, false));
        users.push(("ForeignThing".into(), 0, false));
        users.push(("ForeignGen".into(), 1, false));
    }
    let ctx = TyCtx { users, params: me.generics.clone(), wrappers: g.wrappers, unit: g.unit_type };
    let g2 = g.clone();
    let kind: BoxedStrategy<Kind> = match me.tag {
        KTag::Struct => (fields_strategy(g, &ctx, 1, g.max_fields), opt_of(g.rename_all, 4, rule_value(g.unknown_rule)))
            .prop_map(|(fields, rename_all)| Kind::Struct { shape: Shape::Named(fields), rename_all })
            .boxed(),
        KTag::Newtype => ty_strategy(&ctx, g.ty_depth).prop_map(|t| Kind::Struct { shape: Shape::Newtype(t), rename_all: None }).boxed(),
        KTag::UnitStruct => Just(Kind::Struct { shape: Shape::Unit, rename_all: None }).boxed(),
        KTag::UnitEnum => {
            let ctx2 = ctx.clone();
            (1..=g.max_variants)
                .prop_flat_map(variant_names)
                .prop_flat_map(move |names| names.into_iter().map(|n| variant_strategy(&g2, &ctx2, n, true)).collect::<Vec<_>>())
                .prop_flat_map({
                    let g3 = g.clone();
                    move |variants| {
                        opt_of(g3.rename_all, 4, rule_value(g3.unknown_rule))
                            .prop_map(move |rename_all| Kind::Enum { variants: variants.clone(), rename_all, tag: None, content: None })
                    }
                })
                .boxed()
        }
        KTag::TaggedEnum => {
            let ctx2 = ctx.clone();
            let g3 = g.clone();
            (1..=g.max_variants)
                .prop_flat_map(variant_names)
                .prop_flat_map(move |names| names.into_iter().map(|n| variant_strategy(&g2, &ctx2, n, false)).collect::<Vec<_>>())
                .prop_flat_map(move |variants| {
                    let keys = if g3.custom_keys {
                        subsequence(KEY_NAMES.to_vec(), 2..=2).prop_shuffle().prop_map(|v| (v[0].to_string(), v[1].to_string())).boxed()
                    } else {
                        Just(("type".to_string(), "content".to_string())).boxed()
                    };
                    (keys, opt_of(g3.rename_all, 4, rule_value(g3.unknown_rule))).prop_map(move |((tag, content), rename_all)| {
                        let mut variants = variants.clone();
                        // keep at least one non-skipped data variant so the enum stays algebraic
                        if !variants.iter().any(|v| !v.skipped() && !matches!(v.payload, Payload::Unit)) {
                            let v0 = &mut variants[0];
                            v0.skip = Skip::None;
                            if matches!(v0.payload, Payload::Unit) {
                                v0.payload = Payload::Newtype(Ty::Prim(Prim::String));
                            }
                        }
                        Kind::Enum { variants, rename_all, tag: Some(tag), content: Some(content) }
                    })
                })
                .boxed()
        }
        KTag::Alias => ty_strategy(&ctx, g.ty_depth).prop_map(|ty| Kind::Alias { ty }).boxed(),
        KTag::Const => (select(vec![Prim::U8, Prim::U32, Prim::I32, Prim::I16, Prim::U53, Prim::I54]), 0u32..100000)
            .prop_map(|(p, v)| Kind::Const { ty: Ty::Prim(p), expr: v.to_string() })
            .boxed(),
    };
    let rename = opt_of(g.item_renames && me.tag != KTag::Const, 3, Just(format!("Rn{}", me.name)).boxed());
    let layout = if g.layouts { any::<u8>().boxed() } else { Just(0u8).boxed() };
    let annotated = if g.unannotated { prop_oneof![3 => Just(true), 1 => Just(false)].boxed() } else { Just(true).boxed() };
    let mods = if g.mods {
        prop_oneof![
            6 => Just(vec![]),
            4 => subsequence(MOD_NAMES.to_vec(), 1..=3).prop_map(|v| v.into_iter().map(|s| s.to_string()).collect::<Vec<String>>()),
            // declared inside a function or method body (possibly inside a module)
            1 => select(vec![vec!["fn:handler"], vec!["implfn:call"], vec!["inner", "fn:make"], vec!["api", "implfn:respond"]]).prop_map(|v| v.into_iter().map(|s| s.to_string()).collect::<Vec<String>>()),
        ]
        .boxed()
    } else {
        Just(vec![]).boxed()
    };
    let decor = if g.decorators {
        let tag = me.tag;
        let gens = me.generics.clone();
        (
            prop_oneof![3 => Just(vec![]), 1 => subsequence(vec!["Equatable".to_string(), "Hashable".to_string(), "Codable".to_string(), "Identifiable".to_string()], 1..=2)],
            any::<bool>(),
            prop_oneof![4 => Just(false), 1 => Just(true)],
            any::<bool>(),
        )
            .prop_map(move |(swift, inline, redacted, sgc)| Decor {
                swift,
                kotlin_inline: inline && matches!(tag, KTag::Newtype | KTag::Alias),
                swift_generic_constraints: if sgc && !gens.is_empty() { vec![format!("{}: Equatable & Hashable", gens[0])] } else { vec![] },
                redacted,
            })
            .boxed()
    } else {
        Just(Decor::default()).boxed()
    };
    (kind, rename, layout, annotated, mods, docs(g.benign_docs), decor)
        .prop_map(move |(kind, serde_rename, layout, annotated, mod_path, docs, decor)| Item {
            name: me.name.clone(),
            generics: me.generics.clone(),
            kind,
            serde_rename,
            annotated,
            docs,
            cfgs: vec![],
            decor,
            serialized_as: None,
            mod_path,
            layout,
            decoy_rename_all_fields: None,
        })
        .boxed()
}

/// Keep wire names distinct inside one container (identical keys are outside every property's domain):
/// a rename that collides with an earlier key of the same container is dropped.
pub fn dedup_keys(items: &mut [Item]) {
    fn fix_fields(fs: &mut [Field], rule: &Option<String>) {
        let mut seen: Vec<String> = vec![];
        for i in 0..fs.len() {
            let mut k = crate::prog::serde_field_key(&fs[i], rule).unwrap_or_else(|| fs[i].name.clone());
            if seen.contains(&k) || fs.iter().enumerate().any(|(j, o)| j != i && o.rename.is_none() && crate::prog::serde_field_key(o, rule).as_deref() == Some(k.as_str()) && fs[i].rename.is_some()) {
                fs[i].rename = None;
                k = crate::prog::serde_field_key(&fs[i], rule).unwrap_or_else(|| fs[i].name.clone());
            }
            seen.push(k);
        }
    }
    for it in items.iter_mut() {
        match &mut it.kind {
            Kind::Struct { shape: Shape::Named(fs), rename_all } => fix_fields(fs, rename_all),
            Kind::Enum { variants, rename_all, .. } => {
                let mut seen: Vec<String> = vec![];
                for i in 0..variants.len() {
                    let mut k = crate::prog::serde_variant_wire(&variants[i], rename_all).unwrap_or_else(|| variants[i].name.clone());
                    let clash_other = variants.iter().enumerate().any(|(j, o)| j != i && o.rename.is_none() && crate::prog::serde_variant_wire(o, rename_all).as_deref() == Some(k.as_str()));
                    if variants[i].rename.is_some() && (seen.contains(&k) || clash_other) {
                        variants[i].rename = None;
                        k = crate::prog::serde_variant_wire(&variants[i], rename_all).unwrap_or_else(|| variants[i].name.clone());
                    }
                    seen.push(k);
                    if let Payload::Struct { fields, rename_all: ra } = &mut variants[i].payload {
                        let ra2 = ra.clone();
                        fix_fields(fields, &ra2);
                    }
                }
            }
            _ => {}
        }
    }
}

/// A whole program (single file)
pub fn program(g: &GenCfg) -> BoxedStrategy<Vec<Item>> {
    let g = g.clone();
    skeleton(&g)
        .prop_flat_map(move |skel| (0..skel.len()).map(|i| item_strategy(&g, &skel, i)).collect::<Vec<_>>())
        .prop_map(|mut items| {
            dedup_keys(&mut items);
            use_alias_params(&mut items);
            items
        })
        .boxed()
}

/// `type A<T> = bool;` and `struct A<T>(bool);` are not Rust (E0091 / E0392: type parameter never used): a generic alias
/// or newtype drops the parameters its target does not mention, and every reference to it drops the matching arguments.
fn use_alias_params(items: &mut [Item]) {
    // dropping an argument of a reference can leave the referring alias with an unused parameter in turn: repeat to a fixpoint
    for _ in 0..8 {
        if !use_alias_params_once(items) {
            break;
        }
    }
}
fn use_alias_params_once(items: &mut [Item]) -> bool {
    let mut masks: Vec<(String, Vec<bool>)> = vec![];
    for it in items.iter_mut() {
        if it.generics.is_empty() {
            continue;
        }
        let target = match &it.kind {
            Kind::Alias { ty } => Some(ty),
            Kind::Struct { shape: Shape::Newtype(ty), .. } => Some(ty),
            _ => None,
        };
        if let Some(ty) = target {
            let mut used: Vec<String> = vec![];
            ty.walk(&mut |t| {
                if let Ty::Param(p) = t {
                    used.push(p.clone());
                }
            });
            let mask: Vec<bool> = it.generics.iter().map(|g| used.contains(g)).collect();
            if mask.iter().all(|b| *b) {
                continue;
            }
            let kept: Vec<String> = it.generics.iter().zip(&mask).filter(|(_, k)| **k).map(|(g, _)| g.clone()).collect();
            it.generics = kept;
            masks.push((it.name.clone(), mask));
        }
    }
    if masks.is_empty() {
        return false;
    }
    for it in items.iter_mut() {
        for_types_mut(it, &mut |t| {
            t.walk_mut(&mut |x| {
                if let Ty::User { name, args } = x {
                    if let Some((_, mask)) = masks.iter().find(|(n, _)| n == name) {
                        if args.len() == mask.len() {
                            let mut k = 0;
                            args.retain(|_| {
                                k += 1;
                                mask[k - 1]
                            });
                        }
                    }
                }
            })
        });
    }
    true
}
