//! C18 — I54/U53 hold exactly the JavaScript-safe integers.
use crate::common::*;
use proptest::prelude::*;
use serde::{Deserialize, Serialize};
use serde_json::json;
use std::convert::TryFrom;
use typeshare::{usize_from_u53_saturated, I54, U53};

/// the externally fixed limit: 2^53 - 1 (Number.MAX_SAFE_INTEGER), not taken from the crate
const L: i128 = (1i128 << 53) - 1;

#[derive(Clone, Debug, Serialize, Deserialize)]
pub enum Case {
    /// one integer value (decimal), exercised through every constructor that can take it
    Val(String),
    /// ordering / equality of two values
    Pair(String, String),
}

fn boundary_class(v: i128) -> &'static str {
    let a = v.abs();
    if (a - L).abs() <= 4096 {
        "near-limit"
    } else if a <= 4096 {
        "near-zero"
    } else if (a - (1i128 << 63)).abs() <= 4096 || (a - (1i128 << 64)).abs() <= 4096 {
        "near-type-limit"
    } else if a > L {
        "above-limit"
    } else {
        "inside"
    }
}

fn nontrivial(v: i128) -> bool {
    let a = v.abs();
    (a - L).abs() <= 4096 || (128 - a.leading_zeros()) >= 50
}

pub fn eval_val(v: i128) -> Vec<Violation> {
    let mut out = vec![];
    let bc = boundary_class(v);
    let lit = v.to_string();
    let mut bad = |ty: &str, api: &str, rel: &str, detail: String| {
        out.push(Violation::new(format!("{ty}/{api}/{rel}/{bc}"), format!("value {v}: {detail}")));
    };
    // ---- U53
    let u_ok = (0..=L).contains(&v);
    // JSON literal -> U53
    match serde_json::from_str::<U53>(&lit) {
        Ok(x) => {
            if !u_ok {
                bad("U53", "json-deserialize", "accepted-out-of-range", format!("from_str({lit}) = Ok({x})"));
            } else if u64::from(x) as i128 != v {
                bad("U53", "json-deserialize", "value-changed", format!("from_str({lit}) = {x}"));
            }
        }
        Err(e) => {
            if u_ok {
                bad("U53", "json-deserialize", "rejected-in-range", format!("from_str({lit}) = Err({e})"));
            }
        }
    }
    if let Ok(vu) = u64::try_from(v) {
        match U53::try_from(vu) {
            Ok(x) => {
                if !u_ok {
                    bad("U53", "try_from-u64", "accepted-out-of-range", format!("try_from({vu}) = Ok({x})"));
                }
                if u64::from(x) != vu {
                    bad("U53", "into-u64", "value-changed", format!("u64::from = {}", u64::from(x)));
                }
                let s = serde_json::to_string(&x).unwrap_or_default();
                if s != lit {
                    bad("U53", "json-serialize", "value-changed", format!("to_string = {s}"));
                }
                match serde_json::from_str::<U53>(&s) {
                    Ok(y) if y == x => {}
                    other => bad("U53", "json-roundtrip", "value-changed", format!("{other:?}")),
                }
                if format!("{x}") != lit || format!("{x:?}") != lit {
                    bad("U53", "display", "value-changed", format!("{x} / {x:?}"));
                }
                let f = vu as f64;
                if f as u64 != vu || format!("{f}") != lit {
                    bad("U53", "f64-roundtrip", "value-changed", format!("as f64 = {f}"));
                }
                if !(x == vu) || x.partial_cmp(&vu) != Some(std::cmp::Ordering::Equal) {
                    bad("U53", "eq-wide", "order", "x != its own value".into());
                }
                if vu > 0 && !(x > vu - 1) {
                    bad("U53", "ord-wide", "order", "x > v-1 is false".into());
                }
                if !(x < vu + 1) {
                    bad("U53", "ord-wide", "order", "x < v+1 is false".into());
                }
                let us = usize_from_u53_saturated(x);
                if us as u128 != (vu as u128).min(usize::MAX as u128) {
                    bad("U53", "usize_saturated", "value-changed", format!("{us}"));
                }
                // narrowing
                macro_rules! narrow {
                    ($t:ty, $name:expr) => {
                        match <$t>::try_from(x) {
                            Ok(n) => {
                                if vu > <$t>::MAX as u64 {
                                    bad("U53", $name, "accepted-out-of-range", format!("Ok({n})"));
                                } else if n as u64 != vu {
                                    bad("U53", $name, "value-changed", format!("Ok({n})"));
                                }
                            }
                            Err(_) => {
                                if vu <= <$t>::MAX as u64 {
                                    bad("U53", $name, "rejected-in-range", "Err".into());
                                }
                            }
                        }
                    };
                }
                narrow!(u32, "try_into-u32");
                narrow!(u16, "try_into-u16");
                narrow!(u8, "try_into-u8");
            }
            Err(_) => {
                if u_ok {
                    bad("U53", "try_from-u64", "rejected-in-range", format!("try_from({vu}) = Err"));
                }
            }
        }
        // widening From
        if let Ok(n) = u32::try_from(vu) {
            if u64::from(U53::from(n)) != vu {
                bad("U53", "from-u32", "value-changed", format!("{}", U53::from(n)));
            }
        }
        if let Ok(n) = u16::try_from(vu) {
            if u64::from(U53::from(n)) != vu {
                bad("U53", "from-u16", "value-changed", format!("{}", U53::from(n)));
            }
        }
        if let Ok(n) = u8::try_from(vu) {
            if u64::from(U53::from(n)) != vu {
                bad("U53", "from-u8", "value-changed", format!("{}", U53::from(n)));
            }
        }
    }
    // ---- I54
    let i_ok = (-L..=L).contains(&v);
    match serde_json::from_str::<I54>(&lit) {
        Ok(x) => {
            if !i_ok {
                bad("I54", "json-deserialize", "accepted-out-of-range", format!("from_str({lit}) = Ok({x})"));
            } else if i64::from(x) as i128 != v {
                bad("I54", "json-deserialize", "value-changed", format!("from_str({lit}) = {x}"));
            }
        }
        Err(e) => {
            if i_ok {
                bad("I54", "json-deserialize", "rejected-in-range", format!("from_str({lit}) = Err({e})"));
            }
        }
    }
    if let Ok(vi) = i64::try_from(v) {
        match I54::try_from(vi) {
            Ok(x) => {
                if !i_ok {
                    bad("I54", "try_from-i64", "accepted-out-of-range", format!("try_from({vi}) = Ok({x})"));
                }
                if i64::from(x) != vi {
                    bad("I54", "into-i64", "value-changed", format!("i64::from = {}", i64::from(x)));
                }
                let s = serde_json::to_string(&x).unwrap_or_default();
                if s != lit {
                    bad("I54", "json-serialize", "value-changed", format!("to_string = {s}"));
                }
                match serde_json::from_str::<I54>(&s) {
                    Ok(y) if y == x => {}
                    other => bad("I54", "json-roundtrip", "value-changed", format!("{other:?}")),
                }
                if format!("{x}") != lit || format!("{x:?}") != lit {
                    bad("I54", "display", "value-changed", format!("{x} / {x:?}"));
                }
                let f = vi as f64;
                if f as i64 != vi || format!("{f}") != lit {
                    bad("I54", "f64-roundtrip", "value-changed", format!("as f64 = {f}"));
                }
                if !(x == vi) || x.partial_cmp(&vi) != Some(std::cmp::Ordering::Equal) {
                    bad("I54", "eq-wide", "order", "x != its own value".into());
                }
                if vi > i64::MIN && !(x > vi - 1) {
                    bad("I54", "ord-wide", "order", "x > v-1 is false".into());
                }
                if vi < i64::MAX && !(x < vi + 1) {
                    bad("I54", "ord-wide", "order", "x < v+1 is false".into());
                }
                macro_rules! narrow {
                    ($t:ty, $name:expr) => {
                        match <$t>::try_from(x) {
                            Ok(n) => {
                                if vi > <$t>::MAX as i64 || vi < <$t>::MIN as i64 {
                                    bad("I54", $name, "accepted-out-of-range", format!("Ok({n})"));
                                } else if n as i64 != vi {
                                    bad("I54", $name, "value-changed", format!("Ok({n})"));
                                }
                            }
                            Err(_) => {
                                if vi <= <$t>::MAX as i64 && vi >= <$t>::MIN as i64 {
                                    bad("I54", $name, "rejected-in-range", "Err".into());
                                }
                            }
                        }
                    };
                }
                narrow!(i32, "try_into-i32");
                narrow!(i16, "try_into-i16");
                narrow!(i8, "try_into-i8");
            }
            Err(_) => {
                if i_ok {
                    bad("I54", "try_from-i64", "rejected-in-range", format!("try_from({vi}) = Err"));
                }
            }
        }
        if let Ok(n) = i32::try_from(vi) {
            if i64::from(I54::from(n)) != vi {
                bad("I54", "from-i32", "value-changed", format!("{}", I54::from(n)));
            }
        }
        if let Ok(n) = i16::try_from(vi) {
            if i64::from(I54::from(n)) != vi {
                bad("I54", "from-i16", "value-changed", format!("{}", I54::from(n)));
            }
        }
        if let Ok(n) = i8::try_from(vi) {
            if i64::from(I54::from(n)) != vi {
                bad("I54", "from-i8", "value-changed", format!("{}", I54::from(n)));
            }
        }
    }
    // ---- JSON numbers written with a fraction or an exponent. Whether the types accept an integral value in that form is
    // their choice (they reject it today); but whatever is accepted must be exactly the number the literal denotes: a literal
    // that is not an integer, or not in range, must be rejected, and an accepted one must not be rounded on the way.
    if nontrivial(v) || v.abs() < 64 {
        let sign = if v < 0 { "-" } else { "" };
        let a = v.unsigned_abs();
        // (literal, exact value if integral)
        let forms: [(String, Option<i128>); 7] = [
            (format!("{sign}{a}.0"), Some(v)),
            (format!("{sign}{a}.5"), None),
            (format!("{sign}{a}.25"), None),
            (format!("{sign}{a}e0"), Some(v)),
            (format!("{sign}{a}0e-1"), Some(v)),
            (format!("{sign}{a}5e-1"), None),
            (format!("{sign}{a}.000000000000000000001"), None),
        ];
        for (lit, exact) in forms.iter() {
            if let Ok(x) = serde_json::from_str::<U53>(lit) {
                let got = u64::from(x) as i128;
                match exact {
                    None => out.push(Violation::new(format!("U53/json-float-form/accepted-non-integer/{bc}"), format!("from_str({lit}) = Ok({got}): the literal is not an integer"))),
                    Some(e) if !(0..=L).contains(e) => out.push(Violation::new(format!("U53/json-float-form/accepted-out-of-range/{bc}"), format!("from_str({lit}) = Ok({got})"))),
                    Some(e) if *e != got => out.push(Violation::new(format!("U53/json-float-form/value-changed/{bc}"), format!("from_str({lit}) = Ok({got}), the literal denotes {e}"))),
                    _ => {}
                }
            }
            if let Ok(x) = serde_json::from_str::<I54>(lit) {
                let got = i64::from(x) as i128;
                match exact {
                    None => out.push(Violation::new(format!("I54/json-float-form/accepted-non-integer/{bc}"), format!("from_str({lit}) = Ok({got}): the literal is not an integer"))),
                    Some(e) if !(-L..=L).contains(e) => out.push(Violation::new(format!("I54/json-float-form/accepted-out-of-range/{bc}"), format!("from_str({lit}) = Ok({got})"))),
                    Some(e) if *e != got => out.push(Violation::new(format!("I54/json-float-form/value-changed/{bc}"), format!("from_str({lit}) = Ok({got}), the literal denotes {e}"))),
                    _ => {}
                }
            }
        }
    }
    out
}

fn eval_pair(a: i128, b: i128) -> Vec<Violation> {
    let mut out = vec![];
    let want = a.cmp(&b);
    if let (Ok(x), Ok(y)) = (u64::try_from(a), u64::try_from(b)) {
        if let (Ok(p), Ok(q)) = (U53::try_from(x), U53::try_from(y)) {
            if p.cmp(&q) != want || (p == q) != (a == b) || (p < q) != (a < b) || p.partial_cmp(&q) != Some(want) {
                out.push(Violation::new("U53/cmp/order/pair", format!("{a} vs {b}: cmp={:?}", p.cmp(&q))));
            }
            if p.partial_cmp(&y) != Some(want) || (p == y) != (a == b) {
                out.push(Violation::new("U53/cmp-wide/order/pair", format!("{a} vs {b}")));
            }
        }
    }
    if let (Ok(x), Ok(y)) = (i64::try_from(a), i64::try_from(b)) {
        if let (Ok(p), Ok(q)) = (I54::try_from(x), I54::try_from(y)) {
            if p.cmp(&q) != want || (p == q) != (a == b) || (p < q) != (a < b) || p.partial_cmp(&q) != Some(want) {
                out.push(Violation::new("I54/cmp/order/pair", format!("{a} vs {b}: cmp={:?}", p.cmp(&q))));
            }
            if p.partial_cmp(&y) != Some(want) || (p == y) != (a == b) {
                out.push(Violation::new("I54/cmp-wide/order/pair", format!("{a} vs {b}")));
            }
        }
    }
    out
}

fn constants() -> Vec<Violation> {
    let mut out = vec![];
    if u64::from(U53::MAX) as i128 != L || u64::from(U53::MIN) != 0 || u64::from(U53::default()) != 0 {
        out.push(Violation::new("U53/consts/value-changed/near-limit", format!("MAX={} MIN={}", U53::MAX, U53::MIN)));
    }
    if i64::from(I54::MAX) as i128 != L || i64::from(I54::MIN) as i128 != -L || i64::from(I54::default()) != 0 {
        out.push(Violation::new("I54/consts/value-changed/near-limit", format!("MAX={} MIN={}", I54::MAX, I54::MIN)));
    }
    out
}

pub struct C18;

/// a value stratified by bit length (0..=65 bits), either sign
fn strat_val() -> impl Strategy<Value = i128> {
    (0u32..=65, any::<u128>(), any::<bool>(), 0u8..8).prop_map(|(bits, raw, neg, near)| {
        let mag: i128 = if bits == 0 {
            0
        } else {
            let top = 1i128 << (bits - 1);
            top | ((raw as i128) & (top - 1))
        };
        // one draw in 8 is snapped near the safe-integer limit
        let mag = if near == 0 { L + ((raw % 129) as i128) - 64 } else { mag };
        if neg {
            -mag
        } else {
            mag
        }
    })
}

impl SubCheck for C18 {
    type Case = Case;
    fn name(&self) -> &'static str {
        "c18-values"
    }
    fn strategy(&self, _tier: Tier) -> BoxedStrategy<Case> {
        prop_oneof![
            4 => strat_val().prop_map(|v| Case::Val(v.to_string())),
            1 => (strat_val(), strat_val()).prop_map(|(a, b)| Case::Pair(a.to_string(), b.to_string())),
            1 => (strat_val(), -3i128..=3).prop_map(|(a, d)| Case::Pair(a.to_string(), (a + d).to_string())),
        ]
        .boxed()
    }
    fn eval(&self, run: &Run, case: &Case, _w: &mut Worker, counting: bool) -> Vec<Violation> {
        match case {
            Case::Val(s) => {
                let v: i128 = s.parse().unwrap_or(0);
                if counting {
                    run.label(boundary_class(v));
                    if nontrivial(v) {
                        run.nontrivial(hash_of(&("v", v)));
                    }
                    run.sample(boundary_class(v), 2, || json!({"value": s, "u53_in_range": (0..=L).contains(&v), "i54_in_range": (-L..=L).contains(&v)}));
                }
                eval_val(v)
            }
            Case::Pair(a, b) => {
                let (a, b): (i128, i128) = (a.parse().unwrap_or(0), b.parse().unwrap_or(0));
                if counting {
                    run.label("pair");
                    if nontrivial(a) || nontrivial(b) {
                        run.nontrivial(hash_of(&("p", a, b)));
                    }
                }
                eval_pair(a, b)
            }
        }
    }
}

pub fn centers() -> Vec<i128> {
    let mut c = vec![0i128, L, -L, u64::MAX as i128, i64::MAX as i128, i64::MIN as i128];
    for k in 0..=64 {
        c.push(1i128 << k);
        c.push(-(1i128 << k));
    }
    c
}

pub fn run(run: &Run) {
    run.set_rule("values: every integer within 2^12 of 0, of each +-2^k (k=0..64), of +-(2^53-1) and of the u64/i64 limits (exhaustive), plus proptest draws stratified by bit length 0..65 and sign, one in 8 snapped to within 64 of the limit, plus pairs (independent and adjacent) for ordering; each value goes through TryFrom<u64/i64>, From/TryFrom narrow types, serde_json literal deserialisation (also for literals outside u64/i64, and for seven fraction / exponent spellings of every boundary value), serialisation round trip, f64 round trip, usize_from_u53_saturated and comparisons. Non-trivial = within 2^12 of the limit or bit length >= 50; distinct by value.");
    run.assume("the safe-integer limit 2^53-1 is a literal of the harness (cross-checked against `node -p Number.MAX_SAFE_INTEGER` when node is present), not the crate's constant");
    run.assume("JSON numbers with a fraction or exponent: acceptance of integral values in that form is left to the types (they reject them today); demanded is only that nothing non-integral or out of range is accepted and nothing accepted is rounded");
    // cross-check the limit with node
    if let Ok(o) = std::process::Command::new("node").args(["-p", "Number.MAX_SAFE_INTEGER"]).output() {
        let s = String::from_utf8_lossy(&o.stdout).trim().to_string();
        if !s.is_empty() {
            run.extra("node_max_safe_integer", json!(s));
            if s != L.to_string() {
                run.inconclusive(&format!("harness limit {L} disagrees with node ({s})"));
            }
        }
    }
    for v in constants() {
        if !run.is_known(&v.sig) {
            run.record_violation("c18-consts", &v, json!({"consts": true}), json!(null));
        } else {
            run.known_hit(&v.sig);
        }
    }
    replay_regress(run, &C18);
    // exhaustive boundary windows
    let mut vals: Vec<i128> = vec![];
    for c in centers() {
        for d in -4096i128..=4096 {
            vals.push(c + d);
        }
    }
    vals.sort();
    vals.dedup();
    let total = vals.len();
    let n = threads();
    let chunk = (total + n - 1) / n;
    std::thread::scope(|sc| {
        for part in vals.chunks(chunk) {
            sc.spawn(move || {
                let mut nt = 0u64;
                for &v in part {
                    let vs = eval_val(v);
                    if nontrivial(v) {
                        nt += 1;
                        run.nontrivial(hash_of(&("v", v)));
                    }
                    for viol in run.triage(vs, true) {
                        run.record_violation("c18-values", &viol, serde_json::to_value(Case::Val(v.to_string())).unwrap(), json!({"value": v.to_string()}));
                    }
                }
                run.count_eval(part.len() as u64);
                run.label_n("window-nontrivial", nt);
            });
        }
    });
    run.label_n("window-values", total as u64);
    run.extra("exhaustive_window_values", json!(total));
    run.set_exhaustive(true);
    run.extra("exhaustive_scope", json!("boundary windows only (see rule); the random part is sampled"));
    search(run, &C18, run.tier.pick(200_000, 10_000_000));
}

pub fn replay(run: &Run, case: &serde_json::Value) -> Result<Vec<Violation>, String> {
    replay_case(run, &C18, case)
}
