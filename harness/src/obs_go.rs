//! Go observer.
use crate::lex::{Tok, TokKind};
use crate::obs::*;

pub fn type_expr(c: &mut Cur) -> PResult<OTy> {
    if c.eat_p("*") {
        return Ok(OTy::Ptr(Box::new(type_expr(c)?)));
    }
    if c.is_p("[") {
        c.next();
        if c.eat_p("]") {
            return Ok(OTy::Seq(Box::new(type_expr(c)?)));
        }
        let n = match c.next() {
            Some(t) if t.kind == TokKind::Number => t.text.parse::<usize>().unwrap_or(0),
            _ => return c.err("expected array length"),
        };
        c.expect_p("]")?;
        return Ok(OTy::FixedSeq(Box::new(type_expr(c)?), n));
    }
    if c.is_id("map") && c.is_p_at(1, "[") {
        c.next();
        c.next();
        let k = type_expr(c)?;
        c.expect_p("]")?;
        let v = type_expr(c)?;
        return Ok(OTy::Map(Box::new(k), Box::new(v)));
    }
    if c.is_id("struct") && c.is_p_at(1, "{") {
        c.next();
        let inner = c.skip_group()?;
        return Ok(if inner.is_empty() { OTy::name("struct{}") } else { OTy::Other("anonymous struct".into()) });
    }
    if c.is_id("interface") && c.is_p_at(1, "{") {
        c.next();
        c.skip_group()?;
        return Ok(OTy::name("interface{}"));
    }
    let mut base = c.ident()?.text.clone();
    while c.is_p(".") {
        c.next();
        base.push('.');
        base.push_str(&c.ident()?.text);
    }
    let mut args = vec![];
    if c.is_p("[") && !c.peek().map(|t| t.nl_before).unwrap_or(false) {
        c.next();
        loop {
            args.push(type_expr(c)?);
            if !c.eat_p(",") {
                break;
            }
        }
        c.expect_p("]")?;
    }
    Ok(OTy::Name { base, args })
}

/// parse `json:"key[,opt]"` out of a struct tag; returns (key, options)
pub fn json_tag(tag: &str) -> Option<(String, Vec<String>)> {
    let i = tag.find("json:\"")?;
    let rest = &tag[i + 6..];
    let mut val = String::new();
    let mut chars = rest.chars();
    loop {
        match chars.next()? {
            '\\' => {
                let e = chars.next()?;
                val.push(e);
            }
            '"' => break,
            ch => val.push(ch),
        }
    }
    let mut parts = val.split(',');
    let key = parts.next().unwrap_or("").to_string();
    Some((key, parts.map(|s| s.to_string()).collect()))
}

struct GoStruct {
    name: String,
    generics: Vec<String>,
    fields: Vec<OField>,
    line: usize,
}
struct GoNamed {
    name: String,
    ty: OTy,
    line: usize,
}
struct GoConst {
    name: String,
    ty: Option<OTy>,
    value: String,
    line: usize,
}
struct GoFunc<'a> {
    recv: Option<(String, bool)>, // (type name, pointer)
    name: String,
    params: Vec<OTy>,
    results: Vec<OTy>,
    body: &'a [Tok],
}

fn struct_fields(c: &mut Cur) -> PResult<Vec<OField>> {
    c.expect_p("{")?;
    let mut out = vec![];
    while !c.is_p("}") {
        if c.eof() {
            return c.err("unclosed struct");
        }
        if !c.at_line_start() {
            return c.err("struct field must start on a new line");
        }
        let id = c.ident()?;
        let mut f = OField::default();
        f.ident = id.text.clone();
        f.key = f.ident.clone();
        f.line = id.line;
        let start = c.i;
        let t = type_expr(c)?;
        f.ty_text = c.t[start..c.i].iter().map(|t| t.text.clone()).collect::<Vec<_>>().join("");
        if matches!(t, OTy::Ptr(_)) {
            f.opt.push("*".into());
        }
        f.ty = Some(t);
        if let Some(t) = c.peek() {
            if t.kind == TokKind::Str && !t.nl_before {
                c.next();
                match json_tag(&t.text) {
                    Some((k, opts)) => {
                        f.key = k;
                        f.bound = true;
                        for o in opts {
                            f.opt.push(o);
                        }
                    }
                    None => return c.err("struct tag without a json key"),
                }
            }
        }
        out.push(f);
    }
    c.expect_p("}")?;
    Ok(out)
}

fn const_spec(c: &mut Cur) -> PResult<GoConst> {
    let id = c.ident()?;
    let ty = if c.is_p("=") { None } else { Some(type_expr(c)?) };
    c.expect_p("=")?;
    let mut v = String::new();
    if c.eat_p("-") {
        v.push('-');
    }
    match c.next() {
        Some(t) if t.kind == TokKind::Str || t.kind == TokKind::Number || t.kind == TokKind::Ident => v.push_str(&t.text),
        _ => return c.err("expected a constant value"),
    }
    Ok(GoConst { name: id.text.clone(), ty, value: v, line: id.line })
}

fn anon_struct_tags(body: &[Tok]) -> Vec<(String, String, Vec<String>)> {
    // (field name, json key, options) for every `Ident Type `json:".."`` inside the body
    let mut out = vec![];
    for (i, t) in body.iter().enumerate() {
        if t.kind == TokKind::Str && t.escaped {
            if let Some((k, o)) = json_tag(&t.text) {
                // field name = first identifier on that line
                let line = t.line;
                let name = body[..i].iter().rev().take_while(|x| x.line == line).last().map(|x| x.text.clone()).unwrap_or_default();
                out.push((name, k, o));
            }
        }
    }
    out
}

pub fn parse(toks: &[Tok]) -> PResult<OFile> {
    let mut c = Cur::new(toks);
    let mut f = OFile::default();
    c.ctx = "package";
    c.expect_id("package")?;
    f.package = Some(c.ident()?.text.clone());
    let mut structs: Vec<GoStruct> = vec![];
    let mut named: Vec<GoNamed> = vec![];
    let mut const_blocks: Vec<Vec<GoConst>> = vec![];
    let mut single_consts: Vec<GoConst> = vec![];
    let mut funcs: Vec<GoFunc> = vec![];
    let mut order: Vec<(usize, String)> = vec![]; // (line, name) in source order
    while !c.eof() {
        c.ctx = "top-level";
        if !c.at_line_start() {
            return c.err("declaration must start on a new line");
        }
        if c.eat_id("import") {
            c.ctx = "import";
            if c.eat_p("(") {
                while !c.is_p(")") {
                    let s = c.string()?;
                    f.imports.push(OImport { module: s.text.clone(), names: vec![] });
                }
                c.expect_p(")")?;
            } else {
                let s = c.string()?;
                f.imports.push(OImport { module: s.text.clone(), names: vec![] });
            }
        } else if c.eat_id("type") {
            c.ctx = "type";
            let name = c.ident()?;
            let mut generics = vec![];
            // generics `[T any, U any]` vs array type `[3]int`: generics start with an identifier followed by an identifier
            if c.is_p("[") && c.peek_at(1).map(|t| t.kind == TokKind::Ident).unwrap_or(false) && c.peek_at(2).map(|t| t.kind == TokKind::Ident).unwrap_or(false) {
                c.next();
                loop {
                    generics.push(c.ident()?.text.clone());
                    let _constraint = type_expr(&mut c)?;
                    if !c.eat_p(",") {
                        break;
                    }
                }
                c.expect_p("]")?;
            }
            if c.is_id("struct") && c.is_p_at(1, "{") && !(c.is_p_at(2, "}")) {
                c.next();
                let fields = struct_fields(&mut c)?;
                order.push((name.line, name.text.clone()));
                structs.push(GoStruct { name: name.text.clone(), generics, fields, line: name.line });
            } else if c.is_id("struct") && c.is_p_at(1, "{") && c.is_p_at(2, "}") {
                // `type X struct {}` (empty struct definition) vs alias to `struct{}`: both are an empty struct type
                c.next();
                c.next();
                c.next();
                order.push((name.line, name.text.clone()));
                structs.push(GoStruct { name: name.text.clone(), generics, fields: vec![], line: name.line });
            } else {
                let t = type_expr(&mut c)?;
                order.push((name.line, name.text.clone()));
                named.push(GoNamed { name: name.text.clone(), ty: t, line: name.line });
            }
        } else if c.eat_id("const") {
            c.ctx = "const";
            if c.eat_p("(") {
                let mut block = vec![];
                while !c.is_p(")") {
                    if c.eof() {
                        return c.err("unclosed const block");
                    }
                    if !c.at_line_start() {
                        return c.err("const spec must start on a new line");
                    }
                    block.push(const_spec(&mut c)?);
                }
                c.expect_p(")")?;
                const_blocks.push(block);
            } else {
                let k = const_spec(&mut c)?;
                order.push((k.line, k.name.clone()));
                single_consts.push(k);
            }
        } else if c.eat_id("func") {
            c.ctx = "func";
            let mut recv = None;
            if c.is_p("(") {
                let inner = c.skip_group()?;
                // (e *Enum) or (e Enum)
                let ptr = inner.iter().any(|t| t.is_p("*"));
                let tyname = inner.iter().rev().find(|t| t.kind == TokKind::Ident).map(|t| t.text.clone()).unwrap_or_default();
                recv = Some((tyname, ptr));
            }
            let name = c.ident()?.text.clone();
            // parameters
            c.expect_p("(")?;
            let mut params = vec![];
            while !c.is_p(")") {
                let _pname = c.ident()?;
                params.push(type_expr(&mut c)?);
                if !c.eat_p(",") {
                    break;
                }
            }
            c.expect_p(")")?;
            let mut results = vec![];
            if c.is_p("(") {
                c.next();
                while !c.is_p(")") {
                    results.push(type_expr(&mut c)?);
                    if !c.eat_p(",") {
                        break;
                    }
                }
                c.expect_p(")")?;
            } else if !c.is_p("{") {
                results.push(type_expr(&mut c)?);
            }
            let body = c.skip_group()?;
            funcs.push(GoFunc { recv, name, params, results, body });
        } else {
            return c.err("expected a declaration");
        }
    }
    // ---------------- interpretation
    let mut decls: Vec<ODecl> = vec![];
    let is_alg = |s: &GoStruct| -> bool {
        let um = funcs.iter().any(|fu| fu.name == "UnmarshalJSON" && fu.recv.as_ref().map(|r| r.0 == s.name).unwrap_or(false));
        let m = funcs.iter().any(|fu| fu.name == "MarshalJSON" && fu.recv.as_ref().map(|r| r.0 == s.name).unwrap_or(false));
        um && m
    };
    let mut tag_types: Vec<String> = vec![];
    for s in &structs {
        if is_alg(s) {
            let mut d = ODecl::new(OKind::AlgEnum, &s.name, s.line);
            // discriminator field = the first field with a json tag
            let tagf = s.fields.iter().find(|f| f.bound);
            let tag_type = tagf.and_then(|f| match &f.ty {
                Some(OTy::Name { base, .. }) => Some(base.clone()),
                _ => None,
            });
            if let Some(tf) = tagf {
                d.tag.push(("go.struct-tag".into(), tf.key.clone()));
                d.facts.push(("tag-field".into(), tf.ident.clone()));
            }
            if let Some(cf) = s.fields.iter().find(|f| !f.bound) {
                d.facts.push(("content-field".into(), cf.ident.clone()));
            }
            if let Some(tt) = &tag_type {
                tag_types.push(tt.clone());
                for b in &const_blocks {
                    for k in b {
                        if matches!(&k.ty, Some(OTy::Name { base, .. }) if base == tt) {
                            let mut case = OCase::new(&k.name, k.line);
                            case.wire.push(("go.const".into(), k.value.clone()));
                            d.cases.push(case);
                        }
                    }
                }
            }
            for fu in funcs.iter().filter(|fu| fu.recv.as_ref().map(|r| r.0 == s.name).unwrap_or(false)) {
                if fu.name == "UnmarshalJSON" {
                    for (n, k, _o) in anon_struct_tags(fu.body) {
                        if n == "Tag" {
                            d.tag.push(("go.unmarshal".into(), k));
                        } else {
                            d.content.push(("go.unmarshal".into(), k));
                        }
                    }
                    // arms: `case CONST:` ... `var res T`
                    let b = fu.body;
                    let mut i = 0;
                    let mut labels: Vec<(String, usize)> = vec![];
                    while i + 2 < b.len() {
                        if b[i].is_id("case") && b[i + 1].kind == TokKind::Ident && b[i + 2].is_p(":") {
                            labels.push((b[i + 1].text.clone(), i + 3));
                        }
                        i += 1;
                    }
                    for (li, (label, start)) in labels.iter().enumerate() {
                        let end = labels.get(li + 1).map(|x| x.1 - 3).unwrap_or(b.len());
                        let arm = &b[*start..end.max(*start)];
                        let mut payload = None;
                        for (j, t) in arm.iter().enumerate() {
                            if t.is_id("var") && arm.get(j + 1).map(|x| x.is_id("res")).unwrap_or(false) {
                                let mut sub = Cur::new(&arm[j + 2..]);
                                if let Ok(ty) = type_expr(&mut sub) {
                                    payload = Some(ty);
                                }
                            }
                        }
                        if let Some(case) = d.cases.iter_mut().find(|c| c.ident == *label) {
                            let n = case.facts.iter().filter(|(k, _)| k == "decode-arm").count();
                            case.facts.push(("decode-arm".into(), (n + 1).to_string()));
                            if let Some(p) = payload {
                                case.payload = Some(p);
                            }
                        } else {
                            d.facts.push(("decode-arm-extra".into(), label.clone()));
                        }
                    }
                } else if fu.name == "MarshalJSON" {
                    for (n, k, o) in anon_struct_tags(fu.body) {
                        if n == "Tag" {
                            d.tag.push(("go.marshal".into(), k));
                        } else {
                            d.content.push(("go.marshal".into(), k));
                            d.facts.push(("marshal-content-opts".into(), o.join(",")));
                        }
                    }
                } else {
                    // accessor
                    if let Some(r) = fu.results.first() {
                        d.refs.push((format!("accessor:{}", fu.name), r.clone()));
                    }
                }
            }
            for fu in funcs.iter().filter(|fu| fu.recv.is_none() && fu.name.starts_with("New")) {
                if fu.results.first().map(|r| matches!(r, OTy::Name { base, .. } if *base == s.name)).unwrap_or(false) {
                    if let Some(p) = fu.params.first() {
                        d.refs.push((format!("constructor:{}", fu.name), p.clone()));
                    }
                    d.facts.push(("constructor".into(), fu.name.clone()));
                }
            }
            decls.push(d);
        } else {
            let mut d = ODecl::new(OKind::Struct, &s.name, s.line);
            d.generics = s.generics.clone();
            d.fields = s.fields.clone();
            decls.push(d);
        }
    }
    for n in &named {
        if tag_types.contains(&n.name) {
            let mut d = ODecl::new(OKind::Helper, &n.name, n.line);
            d.target = Some(n.ty.clone());
            decls.push(d);
            continue;
        }
        let is_string = matches!(&n.ty, OTy::Name { base, args } if base == "string" && args.is_empty());
        let mut cases = vec![];
        if is_string {
            for b in &const_blocks {
                for k in b {
                    if matches!(&k.ty, Some(OTy::Name { base, .. }) if *base == n.name) {
                        let mut case = OCase::new(&k.name, k.line);
                        case.wire.push(("go.const".into(), k.value.clone()));
                        cases.push(case);
                    }
                }
            }
        }
        // a `type X string` directly followed by a const block (even empty) is a unit enum
        let followed_by_block = is_string
            && toks.iter().position(|t| t.line == n.line && t.is_id("type")).map(|i| {
                // find next `const` after this declaration's line
                toks[i..].iter().skip_while(|t| t.line == n.line).next().map(|t| t.is_id("const")).unwrap_or(false)
            }).unwrap_or(false);
        if !cases.is_empty() || followed_by_block {
            let mut d = ODecl::new(OKind::UnitEnum, &n.name, n.line);
            d.cases = cases;
            decls.push(d);
        } else {
            let mut d = ODecl::new(OKind::Alias, &n.name, n.line);
            d.target = Some(n.ty.clone());
            decls.push(d);
        }
    }
    for k in &single_consts {
        let mut d = ODecl::new(OKind::Const, &k.name, k.line);
        d.const_ty = k.ty.clone();
        d.const_value = Some(k.value.clone());
        decls.push(d);
    }
    decls.sort_by_key(|d| d.line);
    f.decls = decls;
    let _ = order;
    Ok(f.finish())
}
