//! Shared driver for the program-based checks: generate with typeshare in-process, observe, hand facts to the oracle.
use crate::common::*;
use crate::model::*;
use crate::obs::*;
use crate::observe::{observe, ObsError, Observed};
use crate::ts::{self, Cfg, Lang, Outcome};
use proptest::prelude::*;
use serde::{Deserialize, Serialize};
use serde_json::json;

#[derive(Clone, Debug, Serialize, Deserialize)]
pub struct ProgCase {
    pub items: Vec<Item>,
    pub cfg: Cfg,
}

/// configuration classes: prefixes, packages
pub fn cfg_strategy() -> BoxedStrategy<Cfg> {
    (
        proptest::sample::select(vec!["", "", "OP", "X_"]),
        proptest::sample::select(vec!["", "", "OP", "K"]),
        proptest::sample::select(vec!["com.example.pkg", "com.example.pkg", "pkg.inner", ""]),
        proptest::sample::select(vec!["com.example.pkg", "a.b.c", "one.two"]),
        proptest::sample::select(vec!["proto", "models"]),
        any::<bool>(),
    )
        .prop_map(|(sp, kp, kpkg, spkg, gpkg, hdr)| Cfg {
            swift_prefix: sp.to_string(),
            kotlin_prefix: kp.to_string(),
            kotlin_package: kpkg.to_string(),
            scala_package: spkg.to_string(),
            go_package: gpkg.to_string(),
            version_header: hdr,
            ..Cfg::default()
        })
        .boxed()
}

/// `cfg_strategy` plus Go's `uppercase_acronyms` (names are re-cased, JSON keys must not be)
pub fn cfg_strategy_acr() -> BoxedStrategy<Cfg> {
    (cfg_strategy(), prop_oneof![3 => Just(vec![]), 1 => Just(vec!["ID".to_string()]), 1 => Just(vec!["URL".to_string(), "ID".to_string(), "HTTP".to_string()])])
        .prop_map(|(mut c, acr)| {
            c.go_acronyms = acr;
            c
        })
        .boxed()
}

pub enum LangResult {
    Observed(String, Observed),
    /// typeshare produced text the observer cannot read
    Unobservable(String, ObsError),
    /// typeshare did not produce text
    NotGenerated(Outcome),
}

pub fn run_lang(lang: Lang, cfg: &Cfg, src: &str, w: &mut Worker, exec_python: bool) -> LangResult {
    let outcome = if w.via_cli { crate::cli::generate(lang, cfg, src, &w.scratch) } else { ts::generate(lang, cfg, &[src], &[]) };
    match outcome {
        Outcome::Ok(text) => match observe(lang, &text, w, exec_python) {
            Ok(o) => LangResult::Observed(text, o),
            Err(e) => LangResult::Unobservable(text, e),
        },
        other => LangResult::NotGenerated(other),
    }
}

pub fn outcome_class(o: &Outcome) -> String {
    match o {
        Outcome::Ok(_) => "ok".into(),
        Outcome::Empty => "empty".into(),
        Outcome::ParseErr(e) => format!("parse-error:{}", e.first().map(|s| s.chars().take(40).collect::<String>()).unwrap_or_default()),
        Outcome::GenErr(e) => format!("gen-error:{}", e.chars().take(40).collect::<String>()),
        Outcome::Panic(_) => "panic".into(),
    }
}

/// Run every language, count outcome classes, call the oracle for the observable ones.
pub fn for_each_lang(
    run: &Run,
    case: &ProgCase,
    langs: &[Lang],
    w: &mut Worker,
    counting: bool,
    exec_python: bool,
    mut oracle: impl FnMut(Lang, &str, &Observed) -> Vec<Violation>,
) -> Vec<Violation> {
    let src = items_src(&case.items);
    let mut out = vec![];
    for &lang in langs {
        match run_lang(lang, &case.cfg, &src, w, exec_python) {
            LangResult::Observed(text, o) => {
                if counting {
                    run.label(&format!("observed/{}", lang.short()));
                }
                out.extend(oracle(lang, &text, &o));
            }
            LangResult::Unobservable(_text, e) => {
                if counting {
                    run.label(&format!("unobservable/{}/{}", lang.short(), e.class()));
                }
            }
            LangResult::NotGenerated(o) => {
                if counting {
                    run.label(&format!("not-generated/{}/{}", lang.short(), outcome_class(&o)));
                }
            }
        }
    }
    out
}

pub fn render(case: &ProgCase) -> serde_json::Value {
    json!({"source": items_src(&case.items), "cfg": case.cfg})
}

/// normalise a name for tolerant matching (case, underscores)
pub fn norm(s: &str) -> String {
    s.chars().filter(|c| *c != '_').flat_map(|c| c.to_lowercase()).collect()
}

#[derive(Debug, Default)]
pub struct Matching {
    /// item index -> decl index
    pub item: Vec<Option<usize>>,
    /// which of the item's names the definition uses
    pub item_name_kind: Vec<&'static str>,
    /// (item index, variant index) -> helper decl index (struct variants)
    pub helper: Vec<((usize, usize), usize)>,
    /// decls not matched to anything (excluding Helper kind)
    pub extra: Vec<usize>,
}

/// Locate the definitions of the model's items in the observed file. Tolerant about which of original/renamed
/// a back end uses (C09's subject) and about case/underscore transformations of const names.
pub fn match_decls(items: &[Item], lang: Lang, cfg: &Cfg, file: &OFile) -> Matching {
    let p = cfg.prefix(lang);
    let mut m = Matching::default();
    let mut used = vec![false; file.decls.len()];
    for it in items {
        let mut found = None;
        let mut nk = "none";
        if it.annotated {
            let cands = [(format!("{p}{}", it.renamed()), "renamed"), (format!("{p}{}", it.name), "original"), (it.renamed().to_string(), "renamed-unprefixed"), (it.name.clone(), "original-unprefixed")];
            'outer: for (c, kind) in cands.iter() {
                for (i, d) in file.decls.iter().enumerate() {
                    if !used[i] && d.kind != OKind::Helper && norm(&d.name) == norm(c) {
                        found = Some(i);
                        nk = if it.serde_rename.is_none() { if kind.contains("unprefixed") && !p.is_empty() { "unprefixed" } else { "plain" } } else { kind };
                        used[i] = true;
                        break 'outer;
                    }
                }
            }
        }
        m.item.push(found);
        m.item_name_kind.push(nk);
    }
    // helper structs of struct variants: <P><Enum orig|renamed><Variant>Inner
    for (ii, it) in items.iter().enumerate() {
        if !it.annotated {
            continue;
        }
        if let Kind::Enum { variants, .. } = &it.kind {
            for (vi, v) in variants.iter().enumerate() {
                if v.skipped() || !matches!(v.payload, Payload::Struct { .. }) {
                    continue;
                }
                let cands = [format!("{p}{}{}Inner", it.renamed(), v.name), format!("{p}{}{}Inner", it.name, v.name), format!("{}{}Inner", it.renamed(), v.name), format!("{}{}Inner", it.name, v.name)];
                'o2: for c in cands.iter() {
                    for (i, d) in file.decls.iter().enumerate() {
                        if !used[i] && d.kind == OKind::Struct && norm(&d.name) == norm(c) {
                            m.helper.push(((ii, vi), i));
                            used[i] = true;
                            break 'o2;
                        }
                    }
                }
            }
        }
    }
    for (i, d) in file.decls.iter().enumerate() {
        if !used[i] && d.kind != OKind::Helper {
            m.extra.push(i);
        }
    }
    m
}

pub fn helper_of(m: &Matching, ii: usize, vi: usize) -> Option<usize> {
    m.helper.iter().find(|(k, _)| *k == (ii, vi)).map(|(_, d)| *d)
}

/// non-skipped fields
pub fn live_fields(fs: &[Field]) -> Vec<&Field> {
    fs.iter().filter(|f| !f.skipped()).collect()
}
pub fn live_variants(vs: &[Variant]) -> Vec<(usize, &Variant)> {
    vs.iter().enumerate().filter(|(_, v)| !v.skipped()).collect()
}

/// serde's JSON key of a field
pub fn serde_field_key(f: &Field, rule: &Option<String>) -> Option<String> {
    if let Some(r) = &f.rename {
        return Some(r.clone());
    }
    match rule {
        Some(r) => crate::c16::oracle(&f.name, r, crate::c16::Pos::Field),
        None => Some(f.name.clone()),
    }
}
pub fn serde_variant_wire(v: &Variant, rule: &Option<String>) -> Option<String> {
    if let Some(r) = &v.rename {
        return Some(r.clone());
    }
    match rule {
        Some(r) => crate::c16::oracle(&v.name, r, crate::c16::Pos::Variant),
        None => Some(v.name.clone()),
    }
}
