//! C14 — multi-file mode partitions types by crate and imports cross-crate references (real binary, -d).
use crate::cli;
use crate::common::*;
use crate::gen::{self, GenCfg};
use crate::model::*;
use crate::obs::*;
use crate::observe::observe;
use crate::prog::norm;
use crate::ts::{Cfg, Lang};
use crate::ws::{self, WFile, Workspace};
use proptest::prelude::*;
use serde::{Deserialize, Serialize};
use serde_json::json;
use std::collections::{BTreeMap, BTreeSet};
use std::time::Duration;

#[derive(Clone, Copy, Debug, PartialEq, Eq, Hash, Serialize, Deserialize)]
pub enum RefStyle {
    UseSingle,
    UseGroup,
    UseNestedGroup,
    Glob,
    Qualified,
    /// `use other_crate::module;` + `module::Type` at the use site
    ViaModule,
}
const STYLES: [RefStyle; 6] = [RefStyle::UseSingle, RefStyle::UseGroup, RefStyle::UseNestedGroup, RefStyle::Glob, RefStyle::Qualified, RefStyle::ViaModule];

#[derive(Clone, Debug, Serialize, Deserialize)]
pub struct Case {
    pub ws: Workspace,
    pub lang: Lang,
    /// (file index, referenced item name) -> style actually used (for labels)
    pub styles: Vec<(usize, String, RefStyle)>,
    pub mapped: Vec<String>,
}

fn qualify(t: &mut Ty, paths: &BTreeMap<String, Vec<String>>) {
    match t {
        Ty::User { name, args } => {
            for a in args.iter_mut() {
                qualify(a, paths);
            }
            if let Some(p) = paths.get(name) {
                let inner = std::mem::replace(t, Ty::Prim(Prim::Bool));
                *t = Ty::Qual(p.clone(), Box::new(inner));
            }
        }
        Ty::Vec(x) | Ty::Array(x, _) | Ty::Slice(x) | Ty::Opt(x) | Ty::Wrap(_, x) | Ty::Ref(x) | Ty::Qual(_, x) => qualify(x, paths),
        Ty::Map(k, v) => {
            qualify(k, paths);
            qualify(v, paths);
        }
        _ => {}
    }
}
fn refs_of(it: &Item) -> BTreeSet<String> {
    let mut out = BTreeSet::new();
    crate::c01_05::for_all_types(std::slice::from_ref(it), &mut |t| {
        for n in t.user_refs() {
            out.insert(n.to_string());
        }
    });
    out
}

/// Build a workspace: distribute the items, then add for every cross-file reference the `use` / qualified path that a
/// compiling Rust program would need, in the style selected by `style_seed`.
fn build(items: Vec<Item>, slots: &[(String, String)], assign: &[usize], style_seed: &[u8]) -> (Workspace, Vec<(usize, String, RefStyle)>) {
    let mut w = ws::distribute(items, slots, assign);
    let mut where_is: BTreeMap<String, (String, String)> = BTreeMap::new(); // item -> (crate dir, rel)
    for f in &w.files {
        for it in &f.items {
            where_is.insert(it.name.clone(), (f.crate_dir.clone(), f.rel.clone()));
        }
    }
    let mod_path = |rel: &str| -> Vec<String> {
        let p = rel.trim_end_matches(".rs").trim_end_matches("/mod");
        if p == "lib" { vec![] } else { p.split('/').map(|s| s.to_string()).collect() }
    };
    let mut styles = vec![];
    let mut k = 0usize;
    for (fi, f) in w.files.iter_mut().enumerate() {
        let here = (f.crate_dir.clone(), f.rel.clone());
        let local: BTreeSet<String> = f.items.iter().map(|i| i.name.clone()).collect();
        let mut needed: BTreeSet<String> = BTreeSet::new();
        for it in &f.items {
            for r in refs_of(it) {
                if !local.contains(&r) && where_is.contains_key(&r) {
                    needed.insert(r);
                }
            }
        }
        let mut group: BTreeMap<String, Vec<String>> = BTreeMap::new(); // crate ident -> paths to group
        let mut qual: BTreeMap<String, Vec<String>> = BTreeMap::new();
        let mut globbed: BTreeSet<String> = BTreeSet::new();
        for r in needed {
            let (cdir, rel) = where_is[&r].clone();
            let same_crate = cdir == here.0;
            let root = if same_crate { ["crate", "self", "super"][style_seed.get(k).copied().unwrap_or(0) as usize % 2].to_string() } else { Workspace::crate_name_of(&cdir) };
            // `self::`/`super::` would need the right relative module; `crate::` always resolves — use crate:: for same-crate
            let root = if same_crate { "crate".to_string() } else { root };
            let mut path = vec![root.clone()];
            path.extend(mod_path(&rel));
            let mut style = STYLES[style_seed.get(k).copied().unwrap_or(0) as usize % STYLES.len()];
            // the planted generic holder (see the strategy) is there for nested qualified paths: `a::NestPage<b::NestTag>`
            if r.starts_with("Nest") && style_seed.get(k).copied().unwrap_or(0) % 4 != 0 {
                style = if style_seed.get(k).copied().unwrap_or(0) % 4 == 1 { RefStyle::ViaModule } else { RefStyle::Qualified };
            }
            k += 1;
            // the module form needs a module between the crate and the type, and only makes sense across crates
            if style == RefStyle::ViaModule && (path.len() < 2 || same_crate) {
                style = RefStyle::UseSingle;
            }
            if !same_crate {
                styles.push((fi, r.clone(), style));
            }
            match style {
                RefStyle::UseSingle => f.uses.push(format!("use {}::{};", path.join("::"), r)),
                RefStyle::UseGroup | RefStyle::UseNestedGroup => {
                    let sub: Vec<String> = path[1..].to_vec();
                    let entry = if sub.is_empty() { r.clone() } else if style == RefStyle::UseNestedGroup { format!("{}::{{{}}}", sub.join("::"), r) } else { format!("{}::{}", sub.join("::"), r) };
                    group.entry(root).or_default().push(entry);
                }
                RefStyle::Glob => {
                    if globbed.insert(path.join("::")) {
                        f.uses.push(format!("use {}::*;", path.join("::")));
                    }
                }
                RefStyle::Qualified => {
                    qual.insert(r.clone(), path);
                }
                RefStyle::ViaModule => {
                    let line = format!("use {};", path.join("::"));
                    if !f.uses.contains(&line) {
                        f.uses.push(line);
                    }
                    qual.insert(r.clone(), vec![path.last().unwrap().clone()]);
                }
            }
        }
        for (k2, (root, mut entries)) in group.into_iter().enumerate() {
            // a group may also name things that are not types (a module, a function, `self`), before or after the types
            match (k + k2) % 4 {
                0 => entries.push("helper_fn".into()),
                1 => entries.push("submodule::{inner_fn, self}".into()),
                2 => entries.insert(0, "self".into()),
                _ => {}
            }
            f.uses.push(format!("use {}::{{{}}};", root, entries.join(", ")));
        }
        if !qual.is_empty() {
            for it in f.items.iter_mut() {
                for_types_mut(it, &mut |t| qualify(t, &qual));
            }
        }
        // some fields are overridden for ONE other language (`#[typeshare(swift(type = ".."))]`, `go(..)`): for TypeScript and
        // Kotlin - the languages whose imports are judged - they still name their Rust type and still need its import
        for it in f.items.iter_mut() {
            let sel = it.layout as usize;
            if let Kind::Struct { shape: Shape::Named(fs), .. } = &mut it.kind {
                for (k, fl) in fs.iter_mut().enumerate() {
                    if (sel + k) % 3 == 0 && !fl.ty.user_refs().is_empty() {
                        fl.type_override = Some(if (sel + k) % 2 == 0 { ("swift".to_string(), "String".to_string()) } else { ("go".to_string(), "string".to_string()) });
                    }
                }
            }
        }
        f.uses.insert(0, "use serde::{Deserialize, Serialize};".into());
        f.uses.insert(1, "use typeshare::typeshare;".into());
    }
    (w, styles)
}

pub struct C14;
impl SubCheck for C14 {
    type Case = Case;
    fn name(&self) -> &'static str {
        "c14-folder"
    }
    fn strategy(&self, _tier: Tier) -> BoxedStrategy<Case> {
        let mut g = GenCfg::base();
        g.min_items = 3;
        g.max_items = 12;
        g.kinds = [6, 1, 0, 3, 3, 3, 0];
        g.ty_depth = 2;
        g.max_fields = 3;
        g.max_variants = 3;
        g.kw_fields = false;
        g.item_renames = true;
        g.field_renames = false;
        g.rename_all = false;
        g.variant_renames = false;
        g.custom_keys = false;
        g.generics = true;
        g.wrappers = false;
        g.foreign_types = true;
        (gen::program(&g), ws::slots(1..=5, 1..=8), proptest::collection::vec(0usize..8, 16), proptest::collection::vec(any::<u8>(), 64), ws::lang_strategy(), 0usize..4, any::<bool>())
            .prop_map(|(mut items, slots, assign, style_seed, lang, map_foreign, plant_nested)| {
                // a generic type of one file instantiated with a type of another, held by a third item: when both are named by
                // qualified paths the inner one occurs only inside the generic arguments of the outer path
                if plant_nested && !items.iter().any(|i| i.name.starts_with("Nest")) {
                    let mut page = Item::new("NestPage", Kind::Struct { shape: Shape::Named(vec![Field::new("inner", Ty::Param("T".into())), Field::new("total", Ty::Prim(Prim::U32))]), rename_all: None });
                    page.generics = vec!["T".into()];
                    let tag = Item::new("NestTag", Kind::Struct { shape: Shape::Named(vec![Field::new("label", Ty::Prim(Prim::String))]), rename_all: None });
                    let arg = || Ty::User { name: "NestTag".into(), args: vec![] };
                    let nested = Ty::User { name: "NestPage".into(), args: vec![if style_seed[0] % 2 == 0 { arg() } else { Ty::Vec(Box::new(arg())) }] };
                    let holder = Item::new("NestHolder", Kind::Struct { shape: Shape::Named(vec![Field::new("nested", if style_seed[1] % 2 == 0 { nested } else { Ty::Opt(Box::new(nested)) })]), rename_all: None });
                    let at = items.len() / 2;
                    items.insert(0, page);
                    items.insert(at, tag);
                    items.push(holder);
                }
                let (ws, styles) = build(items, &slots, &assign, &style_seed);
                let mut mapped: Vec<String> = if map_foreign > 0 { vec!["Uuid".into(), "ForeignGen".into()] } else { vec![] };
                // half of the mapped tables also map a typeshared type that another file refers to (by `use` or by a qualified
                // path): it is rendered by its mapped name there, so nothing is left to import
                if map_foreign >= 2 {
                    let all = ws.all_items();
                    if let Some((_, n, _)) = styles.iter().find(|(_, n, _)| all.iter().any(|i| i.name == *n && i.serde_rename.is_none() && i.generics.is_empty())) {
                        mapped.push(n.clone());
                    }
                }
                Case { ws, lang, styles, mapped }
            })
            .boxed()
    }
    fn eval(&self, run: &Run, c: &Case, w: &mut Worker, counting: bool) -> Vec<Violation> {
        let mut out = vec![];
        let lang = c.lang;
        let root = cli::fresh_dir(&w.scratch, "c14");
        let tree = root.join("tree");
        cli::write_tree(&tree, &c.ws.tree());
        let cfg = Cfg::plain();
        let mut base_args = cli::lang_args(lang, &cfg);
        if !c.mapped.is_empty() {
            let sec = match lang { Lang::TypeScript => "typescript", l => l.name() };
            let toml = format!("[{sec}.type_mappings]\n{}\n", c.mapped.iter().map(|m| format!("\"{m}\" = \"Mapped{m}\"")).collect::<Vec<_>>().join("\n"));
            std::fs::write(root.join("cfg.toml"), toml).unwrap();
            base_args.push("-c".into());
            base_args.push(root.join("cfg.toml").to_string_lossy().into_owned());
        }
        let outd = root.join("out");
        std::fs::create_dir_all(&outd).unwrap();
        let mut args = base_args.clone();
        args.extend(["-d".into(), outd.to_string_lossy().into_owned(), tree.to_string_lossy().into_owned()]);
        let r = cli::run(&args, &root, &[], Duration::from_secs(20));
        let crates = c.ws.crates();
        let cross: Vec<&(usize, String, RefStyle)> = c.styles.iter().collect();
        if counting {
            run.label(&format!("c14/{}/crates={}", lang.short(), crates.len()));
            for (_, _, st) in &c.styles {
                run.label(&format!("c14/ref-style/{:?}", st));
            }
            if crates.len() >= 2 && !cross.is_empty() {
                run.nontrivial(hash_of(&(serde_json::to_string(&c.ws).unwrap_or_default(), lang)));
            }
            run.sample("workspace", 2, || json!({"lang": lang.name(), "files": c.ws.tree().iter().map(|(p, t)| json!({"path": p, "content": String::from_utf8_lossy(t)})).collect::<Vec<_>>()}));
        }
        if !r.ok() {
            if counting {
                run.label(&format!("c14/not-generated/{}/exit={:?}", lang.short(), r.code));
            }
            let _ = std::fs::remove_dir_all(&root);
            return out;
        }
        // expected partition
        let mut expected_files: BTreeMap<String, Vec<&Item>> = BTreeMap::new(); // crate name -> items
        for f in &c.ws.files {
            for it in f.items.iter().filter(|i| i.annotated) {
                expected_files.entry(Workspace::crate_name_of(&f.crate_dir)).or_default().push(it);
            }
        }
        let produced = cli::read_tree(&outd);
        let mut observed: BTreeMap<String, OFile> = BTreeMap::new(); // file stem -> facts
        for (name, bytes) in &produced {
            if name == "Codable.swift" {
                continue;
            }
            let stem = name.rsplit_once('.').map(|(s, _)| s.to_string()).unwrap_or(name.clone());
            let ok_name = expected_files.keys().any(|cn| norm(cn) == norm(&stem)) && name.ends_with(lang.ext());
            if !ok_name {
                out.push(Violation::new(format!("{}/unexpected-file", lang.short()), format!("{}: output folder contains `{name}`, which is not named after any crate ({:?})", lang.name(), expected_files.keys().collect::<Vec<_>>())));
                continue;
            }
            match observe(lang, &String::from_utf8_lossy(bytes), w, false) {
                Ok(o) => {
                    observed.insert(stem, o.file);
                }
                Err(_) => {
                    if counting {
                        run.label(&format!("c14/unobservable/{}", lang.short()));
                    }
                    let _ = std::fs::remove_dir_all(&root);
                    return out;
                }
            }
        }
        let file_of = |cn: &str| observed.iter().find(|(stem, _)| norm(stem) == norm(cn)).map(|(s, f)| (s.clone(), f));
        let p = cfg.prefix(lang);
        let mut def_name: BTreeMap<String, (String, String)> = BTreeMap::new(); // item name -> (stem of defining file, name there)
        for (cn, items) in &expected_files {
            match file_of(cn) {
                None => out.push(Violation::new(format!("{}/missing-file", lang.short()), format!("{}: crate `{cn}` has annotated items but no `{cn}.{}` was written (files: {:?})", lang.name(), lang.ext(), produced.iter().map(|x| &x.0).collect::<Vec<_>>()))),
                Some((stem, f)) => {
                    for it in items {
                        let cands = [format!("{p}{}", it.renamed()), format!("{p}{}", it.name)];
                        match f.decls.iter().find(|d| d.kind != OKind::Helper && cands.iter().any(|cnd| norm(cnd) == norm(&d.name))) {
                            Some(d) => {
                                def_name.insert(it.name.clone(), (stem.clone(), d.name.clone()));
                            }
                            None => {
                                // defined in another file?
                                let elsewhere = observed.iter().find(|(s2, f2)| **s2 != stem && f2.decls.iter().any(|d| cands.iter().any(|cnd| norm(cnd) == norm(&d.name)))).map(|(s2, _)| s2.clone());
                                out.push(Violation::new(
                                    format!("{}/{}", lang.short(), if elsewhere.is_some() { "wrong-file" } else { "item-missing" }),
                                    format!("{}: `{}` belongs to crate `{cn}` but is {} ", lang.name(), it.name, elsewhere.map(|e| format!("defined in `{e}`")).unwrap_or_else(|| "defined nowhere".into())),
                                ));
                            }
                        }
                    }
                }
            }
        }
        // each item in exactly one file
        for it in c.ws.all_items().iter().filter(|i| i.annotated) {
            let cands = [format!("{p}{}", it.renamed()), format!("{p}{}", it.name)];
            let n: usize = observed.values().map(|f| f.decls.iter().filter(|d| d.kind != OKind::Helper && cands.iter().any(|cnd| norm(cnd) == norm(&d.name))).count()).sum();
            if n > 1 {
                out.push(Violation::new(format!("{}/defined-in-several-files", lang.short()), format!("{}: `{}` is defined {n} times across the output folder", lang.name(), it.name)));
            }
        }
        // (2) same definitions as single-file mode
        let single = root.join(format!("single.{}", lang.ext()));
        let mut sargs = base_args.clone();
        sargs.extend(["-o".into(), single.to_string_lossy().into_owned(), tree.to_string_lossy().into_owned()]);
        let rs = cli::run(&sargs, &root, &[], Duration::from_secs(20));
        if rs.ok() {
            if let Ok(so) = observe(lang, &std::fs::read_to_string(&single).unwrap_or_default(), w, false) {
                let strip = |d: &ODecl| -> String {
                    let mut v = serde_json::to_value(d).unwrap_or_default();
                    fn scrub(v: &mut serde_json::Value) {
                        match v {
                            serde_json::Value::Object(m) => {
                                m.remove("line");
                                m.remove("order");
                                for (_, x) in m.iter_mut() {
                                    scrub(x);
                                }
                            }
                            serde_json::Value::Array(a) => a.iter_mut().for_each(scrub),
                            _ => {}
                        }
                    }
                    scrub(&mut v);
                    v.to_string()
                };
                let multi: BTreeMap<String, String> = observed.values().flat_map(|f| f.decls.iter()).map(|d| (d.name.clone(), strip(d))).collect();
                let one: BTreeMap<String, String> = so.file.decls.iter().map(|d| (d.name.clone(), strip(d))).collect();
                for (n, d) in &one {
                    match multi.get(n) {
                        None => out.push(Violation::new(format!("{}/defs-differ/missing-in-folder-mode", lang.short()), format!("{}: `{n}` is defined in single-file mode but in no file of folder mode", lang.name()))),
                        Some(m) if m != d => {
                            // does the model item behind this definition refer to a serde-renamed item of ANOTHER crate?
                            let owner = c.ws.files.iter().flat_map(|f| f.items.iter().map(move |i| (f, i))).find(|(_, i)| {
                                let cands = [format!("{p}{}", i.renamed()), format!("{p}{}", i.name)];
                                cands.iter().any(|cnd| n.starts_with(cnd.as_str()) || norm(cnd) == norm(n))
                            });
                            let cause = match owner {
                                Some((f, i)) => {
                                    let refs = refs_of(i);
                                    let cross_renamed = c.ws.files.iter().filter(|g| g.crate_dir != f.crate_dir).flat_map(|g| g.items.iter()).any(|t| t.serde_rename.is_some() && refs.contains(&t.name));
                                    // Go decides pointer-vs-value for variant payloads from the structs of the *same* output file
                                    let go_payload_struct_elsewhere = lang == Lang::Go
                                        && matches!(&i.kind, Kind::Enum { variants, .. } if variants.iter().any(|v| match &v.payload {
                                            Payload::Newtype(t) => match t.peel() {
                                                // the payload names a struct or alias of another crate, directly or through aliases of the own crate
                                                Ty::User { name, .. } => {
                                                    let mut cur = name.clone();
                                                    let mut foreign = false;
                                                    for _ in 0..8 {
                                                        let Some((g, x)) = c.ws.files.iter().flat_map(|g| g.items.iter().map(move |x| (g, x))).find(|(_, x)| x.name == cur) else { break };
                                                        if g.crate_dir != f.crate_dir && matches!(x.kind, Kind::Struct { .. } | Kind::Alias { .. }) {
                                                            foreign = true;
                                                            break;
                                                        }
                                                        match &x.kind {
                                                            Kind::Alias { ty } | Kind::Struct { shape: Shape::Newtype(ty), .. } => match ty.peel() {
                                                                Ty::User { name, .. } => cur = name.clone(),
                                                                _ => break,
                                                            },
                                                            _ => break,
                                                        }
                                                    }
                                                    foreign
                                                }
                                                _ => false,
                                            },
                                            _ => false,
                                        }));
                                    if cross_renamed { "refers-to-renamed-type-of-another-crate" } else if go_payload_struct_elsewhere { "go-variant-payload-is-a-struct-of-another-crate" } else { "other" }
                                }
                                None => "owner-not-found",
                            };
                            out.push(Violation::new(format!("{}/defs-differ/definition-text/{}", lang.short(), cause), format!("{}: the definition of `{n}` differs between folder mode and single-file mode ({cause})", lang.name())))
                        }
                        _ => {}
                    }
                }
                for n in multi.keys() {
                    if !one.contains_key(n) {
                        out.push(Violation::new(format!("{}/defs-differ/extra-in-folder-mode", lang.short()), format!("{}: `{n}` is defined in folder mode only", lang.name())));
                    }
                }
            }
        }
        // (3) imports (TS, Kotlin)
        if matches!(lang, Lang::TypeScript | Lang::Kotlin) {
            for (fi, f) in c.ws.files.iter().enumerate() {
                let cn = Workspace::crate_name_of(&f.crate_dir);
                let Some((stem, of)) = file_of(&cn) else { continue };
                let imports_of = |module_crate: &str| -> Vec<String> {
                    of.imports
                        .iter()
                        .filter(|i| match lang {
                            Lang::TypeScript => i.module == format!("./{module_crate}"),
                            _ => i.module.ends_with(&format!(".{module_crate}")),
                        })
                        .flat_map(|i| i.names.iter().cloned())
                        .collect()
                };
                for it in f.items.iter().filter(|i| i.annotated) {
                    for r in refs_of(it) {
                        if c.mapped.contains(&r) {
                            continue;
                        }
                        let Some((def_stem, def_as)) = def_name.get(&r) else { continue };
                        if *def_stem == stem {
                            continue; // same output file: must not be imported (checked below)
                        }
                        let style = c.styles.iter().find(|(i2, n, _)| *i2 == fi && *n == r).map(|x| x.2);
                        let target_item = c.ws.all_items().into_iter().find(|i| i.name == r).unwrap();
                        if !imports_of(def_stem).iter().any(|n| n == def_as) {
                            out.push(Violation::new(
                                if target_item.serde_rename.is_some() { format!("{}/import-missing/target-renamed", lang.short()) } else { format!("{}/import-missing/{}", lang.short(), style.map(|s| format!("{s:?}")).unwrap_or_else(|| "?".into())) },
                                format!("{}: `{}` ({}.{}) uses `{}` defined in `{}` but `{}` has no import of it from there; imports: {:?}", lang.name(), it.name, stem, lang.ext(), def_as, def_stem, stem, of.imports),
                            ));
                        }
                    }
                }
            }
            // a mapped type is "excluded from import references" (Language::ignored_reference_types): wherever it is named
            // it is written as its mapped name, so no file imports it - except through a glob `use`, which imports every
            // type of the crate it names
            for m in c.mapped.iter() {
                let Some((def_stem, def_as)) = def_name.get(m) else { continue };
                for (fi, f) in c.ws.files.iter().enumerate() {
                    let cn = Workspace::crate_name_of(&f.crate_dir);
                    let Some((stem, of)) = file_of(&cn) else { continue };
                    if stem == *def_stem {
                        continue;
                    }
                    let crate_has_glob = c.ws.files.iter().filter(|g| g.crate_dir == f.crate_dir).any(|g| g.uses.iter().any(|u| u.contains('*')));
                    if crate_has_glob {
                        continue;
                    }
                    if of.imports.iter().any(|i| i.names.iter().any(|n| n == def_as)) {
                        let style = c.styles.iter().find(|(i2, n, _)| *i2 == fi && n == m).map(|x| format!("{:?}", x.2)).unwrap_or_else(|| "other-file-of-the-crate".into());
                        out.push(Violation::new(
                            format!("{}/import-of-mapped-type/{}", lang.short(), style),
                            format!("{}: `{m}` is mapped to `Mapped{m}` by type_mappings, yet `{stem}.{}` imports `{def_as}` from `{def_stem}`; imports: {:?}", lang.name(), lang.ext(), of.imports),
                        ));
                        break;
                    }
                }
            }
            // no import names something its module does not define; nothing imported from the own module
            for (stem, of) in &observed {
                for imp in &of.imports {
                    let module_crate = match lang {
                        Lang::TypeScript => imp.module.trim_start_matches("./").to_string(),
                        _ => {
                            if imp.module.starts_with("kotlinx.") {
                                continue;
                            }
                            imp.module.rsplit('.').next().unwrap_or("").to_string()
                        }
                    };
                    match observed.iter().find(|(s2, _)| norm(s2) == norm(&module_crate)) {
                        None => out.push(Violation::new(format!("{}/import-from-unknown-module", lang.short()), format!("{}: `{stem}` imports {:?} from `{}`, which is not a generated file", lang.name(), imp.names, imp.module))),
                        Some((s2, f2)) => {
                            if s2 == stem {
                                out.push(Violation::new(format!("{}/import-from-own-module", lang.short()), format!("{}: `{stem}` imports {:?} from itself", lang.name(), imp.names)));
                            }
                            for n in &imp.names {
                                if !f2.decls.iter().any(|d| d.name == *n) {
                                    // defined there under its other (original / renamed) name? then it is C09's naming finding showing up here
                                    let other_name = c.ws.all_items().into_iter().any(|it| (format!("{p}{}", it.renamed()) == *n || it.renamed() == n) && f2.decls.iter().any(|d| d.name == format!("{p}{}", it.name) || d.name == it.name));
                                    out.push(Violation::new(format!("{}/import-of-undefined{}", lang.short(), if other_name { "/defined-under-original-name" } else { "" }), format!("{}: `{stem}` imports `{n}` from `{s2}`, which does not define it", lang.name())));
                                }
                            }
                        }
                    }
                }
            }
        }
        let _ = std::fs::remove_dir_all(&root);
        out.sort_by(|a, b| a.sig.cmp(&b.sig));
        out.dedup_by(|a, b| a.sig == b.sig);
        out
    }
    fn render(&self, c: &Case) -> serde_json::Value {
        json!({"lang": c.lang.name(), "mapped": c.mapped, "files": c.ws.tree().iter().map(|(p, t)| json!({"path": p, "content": String::from_utf8_lossy(t)})).collect::<Vec<_>>()})
    }
}

pub fn run(run: &Run) {
    run.set_rule("workspaces of 1-5 crates (directory names with - / _ / digits), files at depth 0-3 under <crate>/src, 3-12 uniquely named items with random references; half of the workspaces also hold a generic type instantiated with a type of another file by a third item (nested qualified paths `a::P<b::T>`); every reference to an item in another file gets the `use` (single, grouped, nested group, glob) or qualified path a compiling program would need - crate:: paths inside a crate, <other_crate>::.. across crates; serde-renamed targets; optional type mappings of foreign types and of one typeshared type that another file refers to (mapped types must not be imported); one language per case through the real binary with -d. Oracle: (1) one output file per crate with annotated items, named after the crate (dashes as underscores; case-insensitive for Swift), every item defined in exactly that file; (2) the definitions across all files equal single-file mode's for the same sources (compared as recovered declarations); (3) TS / Kotlin: every reference from file F to an item defined in G != F is imported by exactly that name from exactly G, no import names something its module does not define, nothing is imported from the own module. Non-trivial = >= 2 crates and >= 1 cross-crate reference.");
    run.assume("item names are unique across the workspace (same-named types in different crates are outside this generator)");
    if !cli::bin_available() {
        run.inconclusive("typeshare binary not built");
        return;
    }
    replay_regress(run, &C14);
    search(run, &C14, run.tier.pick(700, 12_000));
    run.assume("same-named types in two crates, relative paths and generic parameters spelled like foreign types are covered by the separate scoping family (fixed workspace shape, all path forms)");
    crate::c14scope::run_family(run);
}

pub fn replay(run: &Run, case: &serde_json::Value) -> Result<Vec<Violation>, String> {
    if case.get("clash").is_some() {
        return crate::c14scope::replay(run, case);
    }
    replay_case(run, &C14, case)
}

#[allow(dead_code)]
fn _unused(_: WFile) {}
