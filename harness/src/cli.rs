//! Real-binary runner: spawns /verif/target/repo/release/typeshare with a cleared environment, private cwd,
//! captured output and a watchdog.
use crate::ts::{Cfg, Lang};
use std::path::{Path, PathBuf};
use std::process::{Command, Stdio};
use std::time::{Duration, Instant};

pub const BIN: &str = "/verif/target/repo/release/typeshare";

#[derive(Debug, Clone)]
pub struct CliRun {
    pub code: Option<i32>,
    pub stdout: String,
    pub stderr: String,
    pub timed_out: bool,
    pub wall_ms: u128,
    pub signal: bool,
}
impl CliRun {
    pub fn ok(&self) -> bool {
        self.code == Some(0) && !self.timed_out
    }
    pub fn panicked(&self) -> bool {
        self.stderr.contains("panicked at") || self.code == Some(101)
    }
    /// location "file:line" of the first panic message on stderr
    pub fn panic_site(&self) -> Option<String> {
        let i = self.stderr.find("panicked at ")?;
        let rest = &self.stderr[i + "panicked at ".len()..];
        let end = rest.find(|c: char| c == '\n' || c == ' ').unwrap_or(rest.len());
        let loc = rest[..end].trim_end_matches(':');
        // file:line:col -> file:line
        let mut parts = loc.split(':');
        let f = parts.next()?;
        let l = parts.next().unwrap_or("");
        Some(format!("{f}:{l}"))
    }
}

pub fn bin_available() -> bool {
    Path::new(BIN).exists()
}

pub fn run(args: &[String], cwd: &Path, env: &[(String, String)], timeout: Duration) -> CliRun {
    let out_path = cwd.join(format!(".stdout.{}", std::process::id()));
    let err_path = cwd.join(format!(".stderr.{}", std::process::id()));
    let fo = std::fs::File::create(&out_path).expect("stdout file");
    let fe = std::fs::File::create(&err_path).expect("stderr file");
    let start = Instant::now();
    let mut cmd = Command::new(BIN);
    cmd.args(args)
        .current_dir(cwd)
        .env_clear()
        .env("PATH", "/usr/local/bin:/usr/bin:/bin")
        .env("RUST_BACKTRACE", "0")
        .env("HOME", cwd)
        .stdin(Stdio::null())
        .stdout(Stdio::from(fo))
        .stderr(Stdio::from(fe));
    for (k, v) in env {
        cmd.env(k, v);
    }
    let mut child = match cmd.spawn() {
        Ok(c) => c,
        Err(e) => {
            return CliRun { code: None, stdout: String::new(), stderr: format!("spawn failed: {e}"), timed_out: false, wall_ms: 0, signal: false };
        }
    };
    let mut timed_out = false;
    let status = loop {
        match child.try_wait() {
            Ok(Some(st)) => break Some(st),
            Ok(None) => {
                if start.elapsed() > timeout {
                    timed_out = true;
                    let _ = child.kill();
                    let _ = child.wait();
                    break None;
                }
                std::thread::sleep(Duration::from_micros(500));
            }
            Err(_) => break None,
        }
    };
    let stdout = String::from_utf8_lossy(&std::fs::read(&out_path).unwrap_or_default()).into_owned();
    let stderr = String::from_utf8_lossy(&std::fs::read(&err_path).unwrap_or_default()).into_owned();
    let _ = std::fs::remove_file(&out_path);
    let _ = std::fs::remove_file(&err_path);
    let code = status.and_then(|s| s.code());
    let signal = status.map(|s| s.code().is_none()).unwrap_or(false) && !timed_out;
    CliRun { code, stdout, stderr, timed_out, wall_ms: start.elapsed().as_millis(), signal }
}

/// the command-line options that make `lang` generate with configuration `cfg` (no typeshare.toml involved)
pub fn lang_args(lang: Lang, cfg: &Cfg) -> Vec<String> {
    let mut a = vec!["--lang".to_string(), lang.name().to_string()];
    match lang {
        Lang::Kotlin => {
            if !cfg.kotlin_package.is_empty() {
                a.push("--java-package".into());
                a.push(cfg.kotlin_package.clone());
            }
            if !cfg.kotlin_prefix.is_empty() {
                a.push("--kotlin-prefix".into());
                a.push(cfg.kotlin_prefix.clone());
            }
        }
        Lang::Swift => {
            if !cfg.swift_prefix.is_empty() {
                a.push("--swift-prefix".into());
                a.push(cfg.swift_prefix.clone());
            }
        }
        Lang::Scala => {
            a.push("--scala-package".into());
            a.push(cfg.scala_package.clone());
        }
        Lang::Go => {
            a.push("--go-package".into());
            a.push(cfg.go_package.clone());
        }
        _ => {}
    }
    a
}

/// write a tree of (relative path, content) under root
pub fn write_tree(root: &Path, files: &[(String, Vec<u8>)]) {
    for (rel, content) in files {
        let p = root.join(rel);
        if let Some(parent) = p.parent() {
            let _ = std::fs::create_dir_all(parent);
        }
        std::fs::write(&p, content).expect("write tree file");
    }
}

/// every regular file under root (relative path -> bytes), sorted
pub fn read_tree(root: &Path) -> Vec<(String, Vec<u8>)> {
    fn walk(dir: &Path, base: &Path, out: &mut Vec<(String, Vec<u8>)>) {
        let Ok(rd) = std::fs::read_dir(dir) else { return };
        let mut entries: Vec<PathBuf> = rd.flatten().map(|e| e.path()).collect();
        entries.sort();
        for p in entries {
            if p.is_dir() {
                walk(&p, base, out);
            } else if let Ok(b) = std::fs::read(&p) {
                out.push((p.strip_prefix(base).unwrap().to_string_lossy().into_owned(), b));
            }
        }
    }
    let mut out = vec![];
    walk(root, root, &mut out);
    out
}

pub fn fresh_dir(parent: &Path, name: &str) -> PathBuf {
    let p = parent.join(name);
    let _ = std::fs::remove_dir_all(&p);
    std::fs::create_dir_all(&p).expect("create dir");
    p
}

/// the `typeshare.toml` that makes the binary generate with configuration `cfg` (every setting, also those without an option)
pub fn cfg_toml(cfg: &Cfg) -> String {
    fn s(x: &str) -> String {
        toml::Value::String(x.to_string()).to_string()
    }
    fn list(xs: &[String]) -> String {
        format!("[{}]", xs.iter().map(|x| s(x)).collect::<Vec<_>>().join(", "))
    }
    let mappings = |out: &mut String, sec: &str| {
        if !cfg.type_mappings.is_empty() {
            out.push_str(&format!("[{sec}.type_mappings]\n"));
            for (k, v) in &cfg.type_mappings {
                out.push_str(&format!("{} = {}\n", s(k), s(v)));
            }
        }
    };
    let mut t = String::new();
    t.push_str("[swift]\n");
    t.push_str(&format!("prefix = {}\n", s(&cfg.swift_prefix)));
    t.push_str(&format!("default_decorators = {}\n", list(&cfg.swift_default_decorators)));
    t.push_str(&format!("default_generic_constraints = {}\n", list(&cfg.swift_default_generic_constraints)));
    t.push_str(&format!("codablevoid_constraints = {}\n", list(&cfg.swift_codablevoid_constraints)));
    mappings(&mut t, "swift");
    t.push_str("[kotlin]\n");
    t.push_str(&format!("package = {}\nprefix = {}\n", s(&cfg.kotlin_package), s(&cfg.kotlin_prefix)));
    mappings(&mut t, "kotlin");
    t.push_str("[scala]\n");
    t.push_str(&format!("package = {}\n", s(&cfg.scala_package)));
    mappings(&mut t, "scala");
    t.push_str("[typescript]\n");
    mappings(&mut t, "typescript");
    t.push_str("[python]\n");
    mappings(&mut t, "python");
    t.push_str("[go]\n");
    t.push_str(&format!("package = {}\nuppercase_acronyms = {}\nno_pointer_slice = {}\n", s(&cfg.go_package), list(&cfg.go_acronyms), cfg.go_no_pointer_slice));
    mappings(&mut t, "go");
    t
}

/// Generate through the real binary (single-file mode): the counterpart of `ts::generate` for one source text.
pub fn generate(lang: Lang, cfg: &Cfg, src: &str, scratch: &Path) -> crate::ts::Outcome {
    use crate::ts::Outcome;
    let root = fresh_dir(scratch, "gen");
    write_tree(&root, &[("in/src/lib.rs".into(), src.as_bytes().to_vec()), ("conf/typeshare.toml".into(), cfg_toml(cfg).into_bytes())]);
    let outp = root.join(format!("out.{}", lang.ext()));
    let args: Vec<String> = vec![
        "--lang".into(),
        lang.name().into(),
        "-c".into(),
        root.join("conf/typeshare.toml").to_string_lossy().into_owned(),
        "-o".into(),
        outp.to_string_lossy().into_owned(),
        root.join("in").to_string_lossy().into_owned(),
    ];
    let r = run(&args, &root, &[], Duration::from_secs(20));
    let res = if r.timed_out {
        Outcome::Panic("timeout (hang)".into())
    } else if r.panicked() {
        Outcome::Panic(r.stderr.lines().find(|l| l.contains("panicked at")).unwrap_or("panic").to_string())
    } else if r.ok() {
        match std::fs::read(&outp) {
            Ok(b) => Outcome::Ok(String::from_utf8_lossy(&b).into_owned()),
            Err(_) => Outcome::Empty,
        }
    } else {
        // `[timestamp] ERROR [cli/src/main.rs:NN] message` -> message
        let strip = |l: &str| -> String {
            let mut rest = l;
            for _ in 0..2 {
                if rest.starts_with('[') {
                    if let Some(i) = rest.find("] ") {
                        rest = &rest[i + 2..];
                        rest = rest.trim_start_matches(|c: char| c.is_ascii_uppercase() || c == ' ');
                    }
                }
            }
            rest.to_string()
        };
        let msg = r.stderr.lines().filter(|l| !l.contains(" INFO ")).map(strip).collect::<Vec<_>>().join(" | ");
        if msg.contains("Failed to parse") || msg.contains("failed to parse") {
            Outcome::ParseErr(vec![msg])
        } else {
            Outcome::GenErr(msg)
        }
    };
    let _ = std::fs::remove_dir_all(&root);
    res
}
