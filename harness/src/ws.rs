//! Workspace model (crates / files on disk) for the real-binary checks.
use crate::gen::{self, GenCfg};
use crate::model::*;
use proptest::prelude::*;
use proptest::sample::select;
use serde::{Deserialize, Serialize};

#[derive(Clone, Debug, Serialize, Deserialize, PartialEq)]
pub struct WFile {
    /// directory above `src` (crate directory name, may contain `-`)
    pub crate_dir: String,
    /// path under `<crate_dir>/src/`
    pub rel: String,
    pub uses: Vec<String>,
    pub items: Vec<Item>,
    /// extra raw text appended (e.g. un-annotated helper code)
    pub tail: String,
}

#[derive(Clone, Debug, Serialize, Deserialize, PartialEq, Default)]
pub struct Workspace {
    pub files: Vec<WFile>,
    /// non-Rust / decoy files: (path relative to the root, content)
    pub extra: Vec<(String, String)>,
}

pub const CRATE_DIRS: &[&str] = &["core-types", "api", "shared_models", "app2", "x-y-z"];
pub const REL_PATHS: &[&str] = &["lib.rs", "models.rs", "a/mod.rs", "a/b/deep.rs", "types/v1.rs", "zz_last.rs", "m1.rs", "m2.rs", "nested/dir/three/levels.rs"];

impl Workspace {
    pub fn tree(&self) -> Vec<(String, Vec<u8>)> {
        let mut out = vec![];
        for f in &self.files {
            let sf = SrcFile { inner_cfgs: vec![], uses: f.uses.clone(), items: f.items.clone() };
            let mut text = file_src(&sf);
            text.push_str(&f.tail);
            out.push((format!("{}/src/{}", f.crate_dir, f.rel), text.into_bytes()));
        }
        for (p, c) in &self.extra {
            out.push((p.clone(), c.clone().into_bytes()));
        }
        out
    }
    pub fn all_items(&self) -> Vec<&Item> {
        self.files.iter().flat_map(|f| f.items.iter()).collect()
    }
    pub fn crate_name_of(dir: &str) -> String {
        dir.replace('-', "_")
    }
    pub fn crates(&self) -> Vec<String> {
        let mut v: Vec<String> = self.files.iter().map(|f| f.crate_dir.clone()).collect();
        v.sort();
        v.dedup();
        v
    }
    /// files that yield a parse result (contain an annotated item)
    pub fn producing_files(&self) -> usize {
        self.files.iter().filter(|f| f.items.iter().any(|i| i.annotated)).count()
    }
}

/// distribute items over files: `assign[i]` = file slot of item i
pub fn distribute(items: Vec<Item>, slots: &[(String, String)], assign: &[usize]) -> Workspace {
    let mut files: Vec<WFile> = slots.iter().map(|(c, r)| WFile { crate_dir: c.clone(), rel: r.clone(), uses: vec![], items: vec![], tail: String::new() }).collect();
    for (i, it) in items.into_iter().enumerate() {
        let s = assign.get(i).copied().unwrap_or(0) % files.len().max(1);
        files[s].items.push(it);
    }
    files.retain(|f| !f.items.is_empty());
    Workspace { files, extra: vec![] }
}

/// distinct (crate dir, rel path) slots
pub fn slots(n_crates: std::ops::RangeInclusive<usize>, n_files: std::ops::RangeInclusive<usize>) -> BoxedStrategy<Vec<(String, String)>> {
    (proptest::sample::subsequence(CRATE_DIRS.to_vec(), n_crates), n_files)
        .prop_flat_map(|(crates, n)| {
            let mut all: Vec<(String, String)> = vec![];
            for c in &crates {
                for r in REL_PATHS {
                    all.push((c.to_string(), r.to_string()));
                }
            }
            let n = n.min(all.len());
            proptest::sample::subsequence(all, n..=n).prop_shuffle()
        })
        .boxed()
}

/// items for the CLI-based determinism / history checks: all kinds incl. consts, unique names
pub fn cli_items(min: usize, max: usize) -> BoxedStrategy<Vec<Item>> {
    let mut g = GenCfg::base();
    g.min_items = min;
    g.max_items = max;
    g.kinds = [5, 1, 1, 3, 3, 3, 4];
    g.ty_depth = 2;
    g.max_fields = 3;
    g.max_variants = 3;
    g.kw_fields = false;
    g.item_renames = true;
    g.generics = true;
    g.unit_type = true;
    gen::program(&g)
}

pub fn lang_strategy() -> BoxedStrategy<crate::ts::Lang> {
    select(crate::ts::ALL_LANGS.to_vec()).boxed()
}
