//! C06 — output is a deterministic function of the inputs, not of scheduling or hashing (real binary, hooks).
use crate::cli;
use crate::common::*;
use crate::model::*;
use crate::observe::observe;
use crate::ts::{Cfg, Lang};
use crate::ws::{self, Workspace};
use proptest::prelude::*;
use serde::{Deserialize, Serialize};
use serde_json::json;
use std::time::Duration;

#[derive(Clone, Debug, Serialize, Deserialize)]
pub struct Case {
    pub ws: Workspace,
    pub lang: Lang,
    pub folder_mode: bool,
    /// alternative distributions of the same items over files (single-file mode only)
    pub resplits: Vec<Vec<usize>>,
    pub resplit_slots: Vec<(String, String)>,
}

pub fn cfg_for_cli() -> Cfg {
    Cfg::plain()
}

fn strip_for(lang: Lang, ws: &Workspace) -> Workspace {
    // Kotlin/Swift cannot generate consts at all (C07's finding) and Scala drops them (C03's): keep them out here
    let mut w = ws.clone();
    if matches!(lang, Lang::Kotlin | Lang::Swift | Lang::Scala) {
        for f in w.files.iter_mut() {
            f.items.retain(|i| !matches!(i.kind, Kind::Const { .. }));
        }
        w.files.retain(|f| !f.items.is_empty());
    }
    w
}

pub struct OutputSet(pub Vec<(String, Vec<u8>)>);

/// run typeshare on a tree; returns the output files (relative name -> bytes) or the failing run
pub fn generate(tree_root: &std::path::Path, out_root: &std::path::Path, lang: Lang, folder: bool, env: &[(String, String)]) -> Result<OutputSet, cli::CliRun> {
    generate_from(&[tree_root.to_path_buf()], out_root, lang, folder, env)
}

/// the same with several input directories on the command line (they may overlap)
pub fn generate_from(inputs: &[std::path::PathBuf], out_root: &std::path::Path, lang: Lang, folder: bool, env: &[(String, String)]) -> Result<OutputSet, cli::CliRun> {
    let tree_root = inputs[0].as_path();
    let _ = std::fs::remove_dir_all(out_root);
    std::fs::create_dir_all(out_root).unwrap();
    let cfg = cfg_for_cli();
    let mut args = cli::lang_args(lang, &cfg);
    if folder {
        args.push("-d".into());
        args.push(out_root.to_string_lossy().into_owned());
    } else {
        args.push("-o".into());
        args.push(out_root.join(format!("out.{}", lang.ext())).to_string_lossy().into_owned());
    }
    for i in inputs {
        args.push(i.to_string_lossy().into_owned());
    }
    let r = cli::run(&args, tree_root.parent().unwrap_or(tree_root), env, Duration::from_secs(20));
    if !r.ok() {
        return Err(r);
    }
    Ok(OutputSet(cli::read_tree(out_root)))
}

fn perms(n: usize, cap: usize, seed: u64) -> Vec<Vec<usize>> {
    // all permutations when n! <= cap, otherwise `cap` pseudo-random ones derived from the case (pure function of it)
    let fact: usize = (1..=n).product();
    if fact <= cap {
        let mut out = vec![];
        let mut p: Vec<usize> = (0..n).collect();
        loop {
            out.push(p.clone());
            // next lexicographic permutation
            let mut i = n.wrapping_sub(1);
            while i > 0 && p[i - 1] >= p[i] {
                i -= 1;
            }
            if i == 0 || n == 0 {
                break;
            }
            let mut j = n - 1;
            while p[j] <= p[i - 1] {
                j -= 1;
            }
            p.swap(i - 1, j);
            p[i..].reverse();
        }
        out
    } else {
        let mut out = vec![];
        let mut s = seed | 1;
        for _ in 0..cap {
            let mut p: Vec<usize> = (0..n).collect();
            for i in (1..n).rev() {
                s = s.wrapping_mul(6364136223846793005).wrapping_add(1442695040888963407);
                let j = ((s >> 33) as usize) % (i + 1);
                p.swap(i, j);
            }
            out.push(p);
        }
        out
    }
}

/// which kind of definition sits at the first differing place of two outputs
fn moved_kind(lang: Lang, a: &OutputSet, b: &OutputSet, w: &mut Worker) -> String {
    for ((na, ba), (nb, bb)) in a.0.iter().zip(b.0.iter()) {
        if na != nb {
            return "file-set".into();
        }
        if ba != bb {
            let (ta, tb) = (String::from_utf8_lossy(ba).into_owned(), String::from_utf8_lossy(bb).into_owned());
            if let (Ok(oa), Ok(ob)) = (observe(lang, &ta, w, false), observe(lang, &tb, w, false)) {
                let la: Vec<(String, String)> = oa.file.decls.iter().map(|d| (d.name.clone(), format!("{:?}", d.kind))).collect();
                let lb: Vec<(String, String)> = ob.file.decls.iter().map(|d| (d.name.clone(), format!("{:?}", d.kind))).collect();
                for (x, y) in la.iter().zip(lb.iter()) {
                    if x != y {
                        return x.1.clone();
                    }
                }
                if oa.file.imports.iter().map(|i| format!("{i:?}")).collect::<Vec<_>>() != ob.file.imports.iter().map(|i| format!("{i:?}")).collect::<Vec<_>>() {
                    return "imports".into();
                }
                return "same-declaration-order(other-text)".into();
            }
            return "unparsed".into();
        }
    }
    if a.0.len() != b.0.len() {
        return "file-set".into();
    }
    "none".into()
}

pub struct C06;
impl SubCheck for C06 {
    type Case = Case;
    fn name(&self) -> &'static str {
        "c06-determinism"
    }
    fn strategy(&self, _tier: Tier) -> BoxedStrategy<Case> {
        (ws::cli_items(3, 12), ws::slots(1..=4, 2..=8), proptest::collection::vec(0usize..8, 14), ws::lang_strategy(), any::<bool>(), proptest::collection::vec(proptest::collection::vec(0usize..6, 12), 2..=3), ws::slots(1..=3, 2..=6))
            .prop_map(|(mut items, slots, assign, lang, folder_mode, resplits, resplit_slots)| {
                // half of the trees additionally hold a 4-parameter generic instantiated with up to four other items
                // (fan-out through generic arguments: several not-yet-emitted dependencies of one definition)
                if assign[0] % 2 == 0 {
                    let others: Vec<String> = items.iter().filter(|i| i.generics.is_empty() && !matches!(i.kind, Kind::Const { .. })).map(|i| i.name.clone()).take(4).collect();
                    if others.len() >= 2 {
                        let gens: Vec<String> = ["T", "U", "K", "V"].iter().map(|s| s.to_string()).collect();
                        let mut quad = Item::new("Quad4", Kind::Struct { shape: Shape::Named(vec![Field::new("a", Ty::Param("T".into())), Field::new("b", Ty::Param("U".into())), Field::new("c", Ty::Param("K".into())), Field::new("d", Ty::Param("V".into()))]), rename_all: None });
                        quad.generics = gens;
                        let mut args: Vec<Ty> = others.iter().map(|n| Ty::user(n)).collect();
                        while args.len() < 4 {
                            args.push(Ty::Prim(Prim::String));
                        }
                        let user = Item::new("AaaFanOut", Kind::Struct { shape: Shape::Named(vec![Field::new("all", Ty::User { name: "Quad4".into(), args })]), rename_all: None });
                        items.push(quad);
                        items.push(user);
                    }
                }
                // a third of the trees: an alias of an alias of a struct, used as variant payloads (Go decides pointer-ness by
                // resolving the chain), and one item present twice with identical text (e.g. one per cfg branch): how the copies
                // are spread over files must not matter
                if assign[1] % 3 == 0 {
                    items.push(Item::new("ChainBase", Kind::Struct { shape: Shape::Named(vec![Field::new("v", Ty::Prim(Prim::U8))]), rename_all: None }));
                    items.push(Item::new("ChainInner", Kind::Alias { ty: Ty::user("ChainBase") }));
                    items.push(Item::new("ChainOuter", Kind::Alias { ty: Ty::user("ChainInner") }));
                    items.push(Item::new("ChainOutermost", Kind::Alias { ty: Ty::user("ChainOuter") }));
                    let mut a = Variant::unit("Outer");
                    a.payload = Payload::Newtype(Ty::user("ChainOutermost"));
                    let mut b = Variant::unit("Inner");
                    b.payload = Payload::Newtype(Ty::user("ChainInner"));
                    items.push(Item::new("ChainUser", Kind::Enum { variants: vec![a, b, Variant::unit("Nothing")], rename_all: None, tag: Some("type".into()), content: Some("content".into()) }));
                }
                if assign[2] % 3 == 0 {
                    if let Some(dup) = items.iter().find(|i| !matches!(i.kind, Kind::Const { .. }) && i.name != "Quad4").cloned() {
                        items.push(dup);
                    }
                }
                Case { ws: ws::distribute(items, &slots, &assign), lang, folder_mode, resplits, resplit_slots }
            })
            .boxed()
    }
    fn eval(&self, run: &Run, case: &Case, w: &mut Worker, counting: bool) -> Vec<Violation> {
        let mut out = vec![];
        let wsx = strip_for(case.lang, &case.ws);
        if wsx.files.is_empty() {
            return out;
        }
        let root = cli::fresh_dir(&w.scratch, "c06");
        let tree = root.join("tree");
        cli::write_tree(&tree, &wsx.tree());
        let mode = if case.folder_mode { "folder" } else { "single" };
        let lang = case.lang;
        let base = match generate(&tree, &root.join("out0"), lang, case.folder_mode, &[]) {
            Ok(o) => o,
            Err(r) => {
                if counting {
                    run.label(&format!("c06/not-generated/{}/exit={:?}{}", lang.short(), r.code, if r.timed_out { "/timeout" } else { "" }));
                }
                return out;
            }
        };
        let n = wsx.producing_files();
        let kinds: std::collections::HashSet<&'static str> = wsx.all_items().iter().map(|i| i.kind_name()).collect();
        let consts_in_files = wsx.files.iter().filter(|f| f.items.iter().any(|i| matches!(i.kind, Kind::Const { .. }))).count();
        if counting {
            run.label(&format!("c06/tree/{}/{}/files={}", mode, lang.short(), n.min(8)));
            if (n >= 3 && kinds.len() >= 2) || consts_in_files >= 2 {
                run.nontrivial(hash_of(&(serde_json::to_string(&wsx).unwrap_or_default(), lang, case.folder_mode)));
            }
            run.sample("tree", 2, || json!({"lang": lang.name(), "mode": mode, "files": wsx.tree().iter().map(|(p, c)| json!({"path": p, "content": String::from_utf8_lossy(c)})).collect::<Vec<_>>()}));
        }
        let mut runs = 0u64;
        let mut compare = |label: &str, relation: &str, env: &[(String, String)], tree_dir: &std::path::Path, w: &mut Worker, out: &mut Vec<Violation>| {
            runs += 1;
            match generate(tree_dir, &root.join("outN"), lang, case.folder_mode, env) {
                Ok(o) => {
                    if o.0 != base.0 {
                        let kind = moved_kind(lang, &base, &o, w);
                        out.push(Violation::new(
                            format!("{}/{}/{}/{}", mode, lang.short(), relation, kind),
                            format!("{} {} mode: output differs from the baseline run under {} (first difference: {})", lang.name(), mode, label, kind),
                        ));
                    }
                }
                Err(r) => out.push(Violation::new(
                    format!("{}/{}/{}/run-failed", mode, lang.short(), relation),
                    format!("{} {} mode: run under {} failed (exit {:?}, timeout {}) while the baseline succeeded: {}", lang.name(), mode, label, r.code, r.timed_out, r.stderr.lines().last().unwrap_or("")),
                )),
            }
        };
        // 1. arrival orders at the collector
        let cap = if run.tier == Tier::Thorough { 720 } else { 120 };
        let seed = fnv(&[serde_json::to_string(&wsx).unwrap_or_default().as_bytes()]);
        for p in perms(n, cap, seed) {
            let spec = p.iter().map(|x| x.to_string()).collect::<Vec<_>>().join(",");
            compare(&format!("arrival order {spec}"), "order-dependent", &[("TYPESHARE_VERIF_ORDER".into(), spec.clone())], &tree, w, &mut out);
            if !out.is_empty() {
                break;
            }
        }
        // 2. walker thread counts
        for t in [1, 2, 3, 4, 8, 16] {
            compare(&format!("{t} walker threads"), "thread-count-dependent", &[("TYPESHARE_VERIF_THREADS".into(), t.to_string())], &tree, w, &mut out);
        }
        // 3. repeated processes (fresh hash seeds), unhooked
        for k in 0..run.tier.pick(6, 24) {
            compare(&format!("repeat #{k}"), "seed-dependent", &[], &tree, w, &mut out);
        }
        // 4. single-file mode: the same items split differently over files and directories
        if !case.folder_mode {
            let items: Vec<Item> = wsx.files.iter().flat_map(|f| f.items.iter().cloned()).collect();
            for (k, assign) in case.resplits.iter().enumerate() {
                let alt = ws::distribute(items.clone(), &case.resplit_slots, assign);
                let alt_tree = root.join(format!("tree_alt{k}"));
                cli::write_tree(&alt_tree, &alt.tree());
                compare(&format!("re-split #{k} ({} files)", alt.files.len()), "split-dependent", &[], &alt_tree, w, &mut out);
            }
        }
        // 5. overlapping input roots: a file reached twice is handled the same way whatever thread receives it
        {
            let first_crate = wsx.files.first().map(|f| tree.join(&f.crate_dir));
            if let Some(sub) = first_crate {
                let inputs = vec![tree.clone(), sub, tree.clone()];
                let one = vec![("TYPESHARE_VERIF_THREADS".to_string(), "1".to_string())];
                if let Ok(b2) = generate_from(&inputs, &root.join("outO"), lang, case.folder_mode, &one) {
                    if counting {
                        run.label(&format!("c06/overlapping-roots/{}", lang.short()));
                    }
                    for t in [2, 3, 4, 8, 16, 0, 0] {
                        runs += 1;
                        let env: Vec<(String, String)> = if t == 0 { vec![] } else { vec![("TYPESHARE_VERIF_THREADS".to_string(), t.to_string())] };
                        match generate_from(&inputs, &root.join("outP"), lang, case.folder_mode, &env) {
                            Ok(o) => {
                                if o.0 != b2.0 {
                                    out.push(Violation::new(
                                        format!("{}/{}/overlapping-roots/thread-count-dependent", mode, lang.short()),
                                        format!("{} {} mode: with overlapping input directories the output under {} differs from the 1-thread run", lang.name(), mode, if t == 0 { "the default thread count".to_string() } else { format!("{t} walker threads") }),
                                    ));
                                    break;
                                }
                            }
                            Err(r) => {
                                out.push(Violation::new(format!("{}/{}/overlapping-roots/run-failed", mode, lang.short()), format!("{} {} mode: overlapping input directories: run failed (exit {:?}) while the 1-thread run succeeded", lang.name(), mode, r.code)));
                                break;
                            }
                        }
                    }
                }
            }
        }
        if counting {
            run.label_n("c06/process-runs", runs + 1);
        }
        let _ = std::fs::remove_dir_all(&root);
        // de-duplicate by signature
        out.sort_by(|a, b| a.sig.cmp(&b.sig));
        out.dedup_by(|a, b| a.sig == b.sig);
        out
    }
    fn render(&self, case: &Case) -> serde_json::Value {
        json!({"lang": case.lang.name(), "folder_mode": case.folder_mode, "files": case.ws.tree().iter().map(|(p, c)| json!({"path": p, "content": String::from_utf8_lossy(c)})).collect::<Vec<_>>()})
    }
}

/// Workspaces in which a crate defines a type with the same name as a type it (or a sibling file) imports from another
/// crate, with relative paths and glob-free imports (the scoping family of C14): the arrival order of the per-file results
/// must not decide which of the two a reference or an import line means.
pub struct C06Scope;
impl SubCheck for C06Scope {
    type Case = crate::c14scope::Case;
    fn name(&self) -> &'static str {
        "c06-scoping"
    }
    fn strategy(&self, tier: Tier) -> BoxedStrategy<Self::Case> {
        (crate::c14scope::C14Scope.strategy(tier), any::<bool>())
            .prop_map(|(mut c, explicit)| {
                c.explicit_foreign_clash = explicit;
                c
            })
            .boxed()
    }
    fn eval(&self, run: &Run, c: &Self::Case, w: &mut Worker, counting: bool) -> Vec<Violation> {
        let mut out = vec![];
        let lang = c.lang;
        let root = cli::fresh_dir(&w.scratch, "c06s");
        let tree = root.join("tree");
        cli::write_tree(&tree, &c.tree());
        let Ok(base) = generate(&tree, &root.join("out0"), lang, true, &[]) else {
            let _ = std::fs::remove_dir_all(&root);
            return out;
        };
        if counting {
            run.label(&format!("c06s/{}", lang.short()));
            run.nontrivial(hash_of(&(serde_json::to_string(c).unwrap_or_default(),)));
        }
        let n = c.tree().len();
        let seed = fnv(&[serde_json::to_string(c).unwrap_or_default().as_bytes()]);
        for p in perms(n, if run.tier == Tier::Thorough { 120 } else { 24 }, seed) {
            let spec = p.iter().map(|x| x.to_string()).collect::<Vec<_>>().join(",");
            match generate(&tree, &root.join("outN"), lang, true, &[("TYPESHARE_VERIF_ORDER".into(), spec.clone())]) {
                Ok(o) => {
                    if o.0 != base.0 {
                        let kind = moved_kind(lang, &base, &o, w);
                        out.push(Violation::new(format!("scoping/folder/{}/order-dependent/{}", lang.short(), kind), format!("{} folder mode, same-named types in two crates: output under arrival order {spec} differs from the baseline run (first difference: {kind})", lang.name())));
                        break;
                    }
                }
                Err(r) => {
                    out.push(Violation::new(format!("scoping/folder/{}/order-dependent/run-failed", lang.short()), format!("{}: run under arrival order {spec} failed (exit {:?}) while the baseline succeeded", lang.name(), r.code)));
                    break;
                }
            }
        }
        // repeated unhooked processes (fresh hash seeds): which same-named type an import or reference means must not
        // depend on hash iteration order either
        if out.is_empty() {
            for k in 0..run.tier.pick(8, 24) {
                match generate(&tree, &root.join("outR"), lang, true, &[]) {
                    Ok(o) => {
                        if o.0 != base.0 {
                            let kind = moved_kind(lang, &base, &o, w);
                            out.push(Violation::new(format!("scoping/folder/{}/seed-dependent/{}", lang.short(), kind), format!("{} folder mode, same-named types in two crates: repeat #{k} of the identical run differs from the first (first difference: {kind})", lang.name())));
                            break;
                        }
                    }
                    Err(_) => break,
                }
            }
        }
        let _ = std::fs::remove_dir_all(&root);
        out
    }
    fn render(&self, c: &Self::Case) -> serde_json::Value {
        crate::c14scope::C14Scope.render(c)
    }
}

pub fn run(run: &Run) {
    run.set_rule("trees of 2-8 files in 1-4 crates holding 3-12 uniquely named items (structs, newtypes, unit structs, unit and tagged enums, aliases, consts) with serde renames; one language and one mode (single file / folder) per tree. Metamorphic oracle, compared byte for byte with a baseline run: (1) every arrival order of the per-file results at the collector (all n! for n <= 5 files, quick; n <= 6 thorough; 120/720 sampled beyond) via the hook; (2) 1,2,3,4,8,16 walker threads via the hook; (3) repeated unhooked processes (fresh hash seeds); (4) single-file mode: the same items re-split over other files and directories; (5) overlapping input directories on the command line (a file reached more than once): 2-16 walker threads and the default against the 1-thread run. Non-trivial = >= 3 producing files and >= 2 item kinds, or consts in >= 2 files; distinct by (tree, language, mode).");
    run.assume("hash-seed dependence is sampled (6 / 24 repeats per tree): a two-way seed-dependent choice escapes n repeats with probability 2^-n");
    run.assume("the verif-hooks feature only reorders results already produced / sets the walker's thread count; consts are left out for Kotlin/Swift/Scala, which cannot generate them (recorded under C07 / C03)");
    if !cli::bin_available() {
        run.inconclusive("typeshare binary not built");
        return;
    }
    replay_regress(run, &C06);
    search(run, &C06, run.tier.pick(160, 1500));
    run.assume("a second family reuses C14's scoping workspaces (same type name in two crates, relative paths) under 24 / 120 arrival orders");
    replay_regress(run, &C06Scope);
    search(run, &C06Scope, run.tier.pick(120, 1200));
}

pub fn replay(run: &Run, case: &serde_json::Value) -> Result<Vec<Violation>, String> {
    if case.get("clash").is_some() {
        return replay_case(run, &C06Scope, case);
    }
    replay_case(run, &C06, case)
}
