//! C09 (references use the defined name), C11 (exactly once, after what they use), C12 (helper names defined/imported).
use crate::c01_05::{for_all_types, type_sites};
use crate::common::*;
use crate::factcheck::*;
use crate::gen::GenCfg;
use crate::model::*;
use crate::obs::*;
use crate::prog::*;
use crate::ts::{Cfg, Lang, ALL_LANGS};
use proptest::prelude::*;

/// parallel walk of a Rust type and the observed tree: which observed name stands for which model user type / parameter
pub fn collect_refs(lang: Lang, cfg: &Cfg, rust: &Ty, obs: &OTy, via: &str, users: &mut Vec<(String, String, String)>, params: &mut Vec<(String, String)>) {
    let rust = rust.peel();
    let obs = match obs {
        OTy::Nullable(t) => t.as_ref(),
        o => o,
    };
    match (rust, obs) {
        (Ty::User { name, args }, OTy::Name { base, args: oa }) => {
            if cfg.type_mappings.contains_key(name) {
                return;
            }
            users.push((name.clone(), base.clone(), via.to_string()));
            if args.len() == oa.len() {
                for (a, o) in args.iter().zip(oa.iter()) {
                    collect_refs(lang, cfg, a, o, "generic-arg", users, params);
                }
            }
        }
        (Ty::Param(p), OTy::Name { base, args }) if args.is_empty() => params.push((p.clone(), base.clone())),
        (Ty::Vec(t), OTy::Seq(o)) => collect_refs(lang, cfg, t, o, "vec", users, params),
        (Ty::Slice(t), OTy::Seq(o)) => collect_refs(lang, cfg, t, o, "slice", users, params),
        (Ty::Array(t, _), OTy::Seq(o)) | (Ty::Array(t, _), OTy::FixedSeq(o, _)) => collect_refs(lang, cfg, t, o, "array", users, params),
        (Ty::Map(k, v), OTy::Map(ok, ov)) => {
            collect_refs(lang, cfg, k, ok, "map-key", users, params);
            collect_refs(lang, cfg, v, ov, "map-value", users, params);
        }
        (Ty::Opt(t), o) => match (lang, o) {
            (Lang::TypeScript, o) => collect_refs(lang, cfg, t, o, "option", users, params),
            (Lang::Go, OTy::Ptr(o)) => collect_refs(lang, cfg, t, o, "option", users, params),
            (Lang::Go, o) => collect_refs(lang, cfg, t, o, "option", users, params),
            (_, OTy::Opt(o)) => collect_refs(lang, cfg, t, o, "option", users, params),
            _ => {}
        },
        _ => {}
    }
}

fn name_kind(n: &str, it: &Item, p: &str) -> String {
    let renamed = it.serde_rename.is_some();
    if renamed && n == format!("{p}{}", it.renamed()) {
        "renamed".into()
    } else if n == format!("{p}{}", it.name) {
        if renamed { "original".into() } else { "name".into() }
    } else if !p.is_empty() && n == it.renamed() && renamed {
        "renamed-unprefixed".into()
    } else if !p.is_empty() && n == it.name {
        "unprefixed".into()
    } else if renamed && norm(n) == norm(&format!("{p}{}", it.renamed())) {
        // re-cased by Go's uppercase_acronyms: still the renamed / original name as far as the root cause goes
        "renamed".into()
    } else if norm(n) == norm(&format!("{p}{}", it.name)) {
        if renamed { "original".into() } else { "name-recased".into() }
    } else {
        "other".into()
    }
}

fn c09_oracle(ctx: &Ctx) -> Vec<Violation> {
    let mut out = vec![];
    let p = ctx.cfg.prefix(ctx.lang).to_string();
    let find_item = |name: &str| ctx.items.iter().position(|i| i.name == name && i.annotated);
    // 1. type positions
    for s in type_sites(ctx) {
        let mut users = vec![];
        let mut params = vec![];
        collect_refs(ctx.lang, ctx.cfg, s.rust, s.obs, "direct", &mut users, &mut params);
        for (model, spelled, via) in users {
            let Some(ti) = find_item(&model) else { continue };
            let Some(d) = ctx.decl_of(ti) else { continue };
            if ctx.counting {
                ctx.run.label(&format!("c09/ref/{}/{}", ctx.l(), if ctx.items[ti].serde_rename.is_some() { "target-renamed" } else { "target-plain" }));
            }
            if spelled != d.name {
                let it = &ctx.items[ti];
                out.push(Violation::new(
                    format!("{}/{}/typeref/def={},ref={}{}", ctx.l(), if !it.generics.is_empty() { "generic-target" } else if it.serialized_as.is_some() { "alias" } else { it.kind_name() }, name_kind(&d.name, it, &p), name_kind(&spelled, it, &p), if s.position == "const" { "/in-const" } else { "" }),
                    format!("{}: {} `{}` refers to `{}` (via {}) but that type is defined as `{}`", ctx.lang.name(), s.position, s.owner, spelled, via, d.name),
                ));
            }
        }
        for (pname, spelled) in params {
            if spelled != pname {
                out.push(Violation::new(format!("{}/generic-parameter/{}/renamed-or-prefixed", ctx.l(), s.position), format!("{}: generic parameter `{}` is spelled `{}` at `{}`", ctx.lang.name(), pname, spelled, s.owner)));
            }
        }
    }
    // 2. variant parents and helper structs
    for (ii, it) in ctx.items.iter().enumerate() {
        if !it.annotated || it.serialized_as.is_some() {
            continue;
        }
        let Kind::Enum { variants, .. } = &it.kind else { continue };
        let Some(d) = ctx.decl_of(ii) else { continue };
        let live = live_variants(variants);
        if live.len() != d.cases.len() {
            continue;
        }
        for ((vi, v), case) in live.iter().zip(d.cases.iter()) {
            if let Some(OTy::Name { base, .. }) = &case.parent {
                if *base != d.name {
                    out.push(Violation::new(
                        format!("{}/{}/variant-parent/def={},ref={}", ctx.l(), it.kind_name(), name_kind(&d.name, it, &p), name_kind(base, it, &p)),
                        format!("{}: variant `{}::{}` extends `{}` but the enum is defined as `{}`", ctx.lang.name(), it.name, v.name, base, d.name),
                    ));
                }
            }
            if matches!(v.payload, Payload::Struct { .. }) && ctx.lang != Lang::TypeScript {
                let Some(h) = ctx.helper_decl(ii, *vi) else { continue };
                let mut sites: Vec<(String, String)> = vec![];
                if let Some(OTy::Name { base, .. }) = &case.payload {
                    sites.push(("payload".into(), base.clone()));
                }
                for (role, t) in &d.refs {
                    let applies = match role.split_once(':') {
                        Some(("decode-type", c)) => c == case.ident,
                        Some(("accessor", a)) => norm(a) == norm(&v.name),
                        Some(("constructor", c)) => norm(c).ends_with(&norm(&format!("Variant{}", v.name))),
                        _ => false,
                    };
                    if applies {
                        let t = match t {
                            OTy::Ptr(x) => x.as_ref(),
                            x => x,
                        };
                        if let OTy::Name { base, .. } = t {
                            sites.push((role.split(':').next().unwrap_or("").to_string(), base.clone()));
                        }
                    }
                }
                let renamed = if it.serde_rename.is_some() { "/enum-renamed" } else { "" };
                for (site, spelled) in sites {
                    if ctx.counting {
                        ctx.run.label(&format!("c09/helper-ref/{}", ctx.l()));
                    }
                    if spelled != h.name {
                        let dk = if h.name.contains(it.renamed()) && it.serde_rename.is_some() { "renamed" } else { "original" };
                        let rk = if spelled.contains(it.renamed()) && it.serde_rename.is_some() { "renamed" } else { "original" };
                        out.push(Violation::new(
                            format!("{}/variant-helper/{}/def={},ref={}{}", ctx.l(), site, dk, rk, renamed),
                            format!("{}: struct variant `{}::{}` refers to its helper type as `{}` ({}), which is defined as `{}`", ctx.lang.name(), it.name, v.name, spelled, site, h.name),
                        ));
                    }
                }
            }
        }
    }
    out
}

/// C05 ("generic arguments and generic parameters are preserved in order"): the helper struct of a struct variant is
/// instantiated with the enum's own parameters, so the argument list at every site that names it must be the helper's
/// parameter list, in its order.
pub fn helper_instantiation(ctx: &Ctx) -> Vec<Violation> {
    let mut out = vec![];
    if ctx.lang == Lang::TypeScript {
        return out;
    }
    for (ii, it) in ctx.items.iter().enumerate() {
        if !it.annotated || it.serialized_as.is_some() {
            continue;
        }
        let Kind::Enum { variants, .. } = &it.kind else { continue };
        let Some(d) = ctx.decl_of(ii) else { continue };
        let live = live_variants(variants);
        if live.len() != d.cases.len() {
            continue;
        }
        for ((vi, v), case) in live.iter().zip(d.cases.iter()) {
            if !matches!(v.payload, Payload::Struct { .. }) {
                continue;
            }
            let Some(h) = ctx.helper_decl(ii, *vi) else { continue };
            let mut arg_sites: Vec<(String, Vec<String>)> = vec![];
            if let Some(OTy::Name { args, .. }) = &case.payload {
                arg_sites.push(("payload".into(), args.iter().map(|a| a.show()).collect()));
            }
            for (role, t) in &d.refs {
                let applies = match role.split_once(':') {
                    Some(("decode-type", c)) => c == case.ident,
                    Some(("accessor", a)) => norm(a) == norm(&v.name),
                    Some(("constructor", c)) => norm(c).ends_with(&norm(&format!("Variant{}", v.name))),
                    _ => false,
                };
                if applies {
                    let t = match t {
                        OTy::Ptr(x) => x.as_ref(),
                        x => x,
                    };
                    if let OTy::Name { args, .. } = t {
                        arg_sites.push((role.split(':').next().unwrap_or("").to_string(), args.iter().map(|a| a.show()).collect()));
                    }
                }
            }
            for (site, args) in arg_sites {
                if ctx.counting && !h.generics.is_empty() {
                    ctx.run.label(&format!("c05/helper-generic-args/{}/{}", ctx.l(), h.generics.len().min(2)));
                }
                if args != h.generics {
                    let why = if args.len() != h.generics.len() { "arity" } else { "order" };
                    out.push(Violation::new(
                        format!("{}/variant-helper/{}/generic-args-differ/{}", ctx.l(), site, why),
                        format!("{}: struct variant `{}::{}`: helper `{}` is declared with parameters {:?} but referenced ({}) with arguments {:?}", ctx.lang.name(), it.name, v.name, h.name, h.generics, site, args),
                    ));
                }
            }
        }
    }
    out
}

fn c09_gen() -> GenCfg {
    let mut g = GenCfg::base();
    g.min_items = 2;
    g.max_items = 8;
    g.kinds = [5, 1, 0, 2, 4, 3, 0];
    g.item_renames = true;
    g.field_renames = false;
    g.rename_all = false;
    g.variant_renames = false;
    g.kw_fields = false;
    g.custom_keys = false;
    g.ty_depth = 3;
    g.max_fields = 4;
    g.max_variants = 4;
    g.keyword_item_names = true; // `Type`, `Protocol`: Swift escapes them, with and without a prefix
    g
}
fn c09_nontrivial(c: &ProgCase) -> bool {
    let mut refs: Vec<String> = vec![];
    for_all_types(&c.items, &mut |t| refs.extend(t.user_refs().iter().map(|s| s.to_string())));
    let renamed_ref = c.items.iter().any(|i| i.serde_rename.is_some() && refs.contains(&i.name));
    let prefixed = (!c.cfg.swift_prefix.is_empty() || !c.cfg.kotlin_prefix.is_empty()) && !refs.is_empty();
    let sv = c.items.iter().any(|i| matches!(&i.kind, Kind::Enum { variants, .. } if variants.iter().any(|v| matches!(v.payload, Payload::Struct { .. }))));
    renamed_ref || prefixed || sv
}
/// Go's `uppercase_acronyms` re-cases names at definitions and at uses: both have to arrive at the same spelling
fn c09_cfgs() -> BoxedStrategy<Cfg> {
    (cfg_strategy(), prop_oneof![3 => Just(vec![]), 1 => Just(vec!["ID".to_string()]), 1 => Just(vec!["HTTP".to_string(), "ID".to_string()])])
        .prop_map(|(mut c, acr)| {
            c.go_acronyms = acr;
            c
        })
        .boxed()
}
/// some enums and structs are generated as an alias of another type (`#[typeshare(serialized_as = "String")]`) while
/// still carrying their serde container attributes: references to them must keep naming them the way they are defined
fn c09_post(mut items: Vec<Item>) -> Vec<Item> {
    for it in items.iter_mut() {
        if !it.generics.is_empty() || it.layout % 4 != 0 {
            continue;
        }
        let rule = crate::gen::RULES[(it.layout as usize / 4) % 8].to_string();
        match &mut it.kind {
            Kind::Enum { rename_all, variants, .. } if variants.iter().all(|v| matches!(v.payload, Payload::Unit)) => {
                it.serialized_as = Some(Ty::Prim(Prim::String));
                *rename_all = Some(rule);
            }
            Kind::Struct { shape: Shape::Named(_), rename_all } if it.layout % 8 == 0 => {
                it.serialized_as = Some(Ty::Vec(Box::new(Ty::Prim(Prim::U8))));
                *rename_all = Some(rule);
            }
            _ => {}
        }
    }
    items
}
pub fn c09() -> FactCheck {
    FactCheck { name: "c09-names", gen: c09_gen, langs: &ALL_LANGS, oracle: c09_oracle, nontrivial: c09_nontrivial, labels: no_labels, cfgs: c09_cfgs, exec_python: false, post: c09_post }
}

// =============================================================================================== C11

const C11_LANGS: [Lang; 5] = [Lang::TypeScript, Lang::Kotlin, Lang::Swift, Lang::Go, Lang::Python];

/// edges of the model's reference graph: (from item, to item, position, via)
pub fn edges(items: &[Item]) -> Vec<(usize, usize, &'static str, String)> {
    let mut out = vec![];
    let idx = |n: &str| items.iter().position(|i| i.name == n && i.annotated);
    fn via_of(root: &Ty, target: &str) -> String {
        // container class directly above the reference, "nested" when two or more containers deep
        fn go(t: &Ty, target: &str, chain: &mut Vec<&'static str>, found: &mut Option<Vec<&'static str>>) {
            if found.is_some() {
                return;
            }
            match t {
                Ty::User { name, args } => {
                    if name == target {
                        *found = Some(chain.clone());
                        return;
                    }
                    chain.push("generic-arg");
                    for a in args {
                        go(a, target, chain, found);
                    }
                    chain.pop();
                }
                Ty::Vec(x) => {
                    chain.push("vec");
                    go(x, target, chain, found);
                    chain.pop();
                }
                Ty::Array(x, _) => {
                    chain.push("array");
                    go(x, target, chain, found);
                    chain.pop();
                }
                Ty::Slice(x) => {
                    chain.push("slice");
                    go(x, target, chain, found);
                    chain.pop();
                }
                Ty::Opt(x) => {
                    chain.push("option");
                    go(x, target, chain, found);
                    chain.pop();
                }
                Ty::Map(k, v) => {
                    chain.push("map-key");
                    go(k, target, chain, found);
                    chain.pop();
                    chain.push("map-value");
                    go(v, target, chain, found);
                    chain.pop();
                }
                Ty::Wrap(_, x) | Ty::Ref(x) | Ty::Qual(_, x) => go(x, target, chain, found),
                _ => {}
            }
        }
        let mut found = None;
        go(root, target, &mut vec![], &mut found);
        let chain = found.unwrap_or_default();
        match chain.len() {
            0 => "direct".into(),
            1 => chain[0].into(),
            _ => {
                let mut kinds: Vec<&str> = chain.clone();
                kinds.sort();
                kinds.dedup();
                format!("nested({})", kinds.join("+"))
            }
        }
    }
    for (ii, it) in items.iter().enumerate() {
        if !it.annotated {
            continue;
        }
        let mut add = |t: &Ty, pos: &'static str, out: &mut Vec<(usize, usize, &'static str, String)>| {
            let mut names: Vec<&str> = t.user_refs();
            names.sort();
            names.dedup();
            for n in names {
                if let Some(j) = idx(n) {
                    out.push((ii, j, pos, via_of(t, n)));
                }
            }
        };
        match &it.kind {
            Kind::Struct { shape: Shape::Named(fs), .. } => fs.iter().filter(|f| !f.skipped()).for_each(|f| add(&f.ty, "field", &mut out)),
            Kind::Struct { shape: Shape::Newtype(t), .. } => add(t, "alias", &mut out),
            Kind::Enum { variants, .. } => {
                for v in variants.iter().filter(|v| !v.skipped()) {
                    match &v.payload {
                        Payload::Newtype(t) => add(t, "payload", &mut out),
                        Payload::Struct { fields, .. } => fields.iter().filter(|f| !f.skipped()).for_each(|f| add(&f.ty, "variant-field", &mut out)),
                        _ => {}
                    }
                }
            }
            Kind::Alias { ty } => add(ty, "alias", &mut out),
            Kind::Const { ty, .. } => add(ty, "const", &mut out),
            _ => {}
        }
    }
    out
}

pub fn acyclic(n: usize, edges: &[(usize, usize, &'static str, String)]) -> bool {
    // Kahn
    let mut indeg = vec![0usize; n];
    for (a, b, _, _) in edges {
        if a == b {
            return false;
        }
        indeg[*a] += 1;
        let _ = b;
    }
    let mut done = vec![false; n];
    loop {
        let mut progressed = false;
        for i in 0..n {
            if !done[i] && edges.iter().filter(|(a, b, _, _)| *a == i && !done[*b]).count() == 0 {
                done[i] = true;
                progressed = true;
            }
        }
        if !progressed {
            break;
        }
    }
    done.iter().all(|d| *d)
}

/// The one class of edges the shared sorter still does not see (recorded finding): the target is serde-renamed, so the
/// reference was rewritten to a name the sorter does not look up. Everything else is "visible".
fn edge_class(from: &Item, to: &Item, pos: &str, via: &str) -> String {
    if to.serde_rename.is_some() {
        "target-renamed".into()
    } else {
        format!("visible:{}/{}/{}", from.kind_name(), pos, via)
    }
}

fn c11_oracle(ctx: &Ctx) -> Vec<Violation> {
    let mut out = vec![];
    let f = ctx.file();
    let p = ctx.cfg.prefix(ctx.lang);
    // (1) permutation: every annotated item exactly once
    for it in ctx.items.iter().filter(|i| i.annotated) {
        let cands = [format!("{p}{}", it.renamed()), format!("{p}{}", it.name)];
        let n = f.decls.iter().filter(|d| d.kind != OKind::Helper && cands.iter().any(|c| norm(c) == norm(&d.name))).count();
        if n != 1 {
            out.push(Violation::new(
                format!("{}/{}/{}", ctx.l(), if n == 0 { "lost" } else { "duplicated" }, it.kind_name()),
                format!("{}: {} `{}` is defined {} times in the output", ctx.lang.name(), it.kind_name(), it.name, n),
            ));
        }
    }
    let es = edges(ctx.items);
    let is_dag = acyclic(ctx.items.len(), &es);
    if ctx.counting {
        ctx.run.label(if is_dag { "c11/graph/acyclic" } else { "c11/graph/cyclic" });
    }
    if !is_dag {
        return out;
    }
    // (2) every definition belonging to A that mentions B's name comes after B's definition
    for (a, b, pos, via) in &es {
        let (Some(da), Some(db)) = (ctx.decl_of(*a), ctx.decl_of(*b)) else { continue };
        let mut belonging: Vec<&ODecl> = vec![da];
        for ((ii, _), hd) in &ctx.m.helper {
            if ii == a {
                belonging.push(&f.decls[*hd]);
            }
        }
        for d in &f.decls {
            if d.kind == OKind::Helper && d.name.starts_with(&da.name) {
                belonging.push(d);
            }
        }
        if ctx.counting {
            ctx.run.label(&format!("c11/edge/{}/{}", pos, if via.starts_with("nested") { "nested" } else { via.as_str() }));
        }
        for x in belonging {
            let mentions = x.all_types().iter().any(|(_, t)| t.names().iter().any(|n| *n == db.name));
            if mentions && x.line < db.line {
                let ita = &ctx.items[*a];
                let itb = &ctx.items[*b];
                out.push(Violation::new(
                    format!("{}/dep-after-use/{}", ctx.l(), edge_class(ita, itb, pos, via)),
                    format!("{}: `{}` (line {}) mentions `{}`, which is only defined at line {} ({} `{}` -> {} `{}`, {} via {})", ctx.lang.name(), x.name, x.line, db.name, db.line, ita.kind_name(), ita.name, itb.kind_name(), itb.name, pos, via),
                ));
                break;
            }
        }
    }
    // (3) Python: the module loads (eagerly evaluated aliases / unions)
    if let Some(py) = &ctx.obs.py {
        if let Some((ty, msg, line, name)) = &py.exec_error {
            if ty == "NameError" {
                let user = name.as_ref().map(|n| f.decls.iter().any(|d| d.name == *n)).unwrap_or(false);
                if user {
                    let n = name.clone().unwrap_or_default();
                    // the edge into that name which is out of order
                    let mut tk = "no-edge-found".to_string();
                    // Python writes a generic alias as a subscript assignment `Name[T] = ..`, which needs `Name` to exist already
                    if f.decls.iter().any(|d| d.name == n && d.facts.iter().any(|(k, _)| k == "subscript-target")) {
                        tk = "generic-alias-written-as-subscript-assignment".to_string();
                    }
                    for (a, b, pos, via) in &es {
                        if let (Some(da), Some(db)) = (ctx.decl_of(*a), ctx.decl_of(*b)) {
                            if db.name == n && da.line < db.line {
                                tk = edge_class(&ctx.items[*a], &ctx.items[*b], pos, via);
                                break;
                            }
                        }
                    }
                    out.push(Violation::new(
                        format!("python/py-nameerror/{}", tk),
                        format!("python: executing the module raises NameError: {msg} (line {line}) although the reference graph is acyclic"),
                    ));
                }
            }
        }
    }
    out
}

fn c11_gen_dag() -> GenCfg {
    let mut g = c09_gen();
    g.max_items = 10;
    g.dag = true;
    g.self_refs = false;
    g.generics = true;
    g.kinds = [5, 1, 0, 2, 4, 4, 2];
    g.odd_item_names = true;
    g
}
fn c11_gen_cyclic() -> GenCfg {
    let mut g = c11_gen_dag();
    g.dag = false;
    g.self_refs = true;
    g
}
/// decouple source order from the dependency order: a deterministic shuffle keyed by the first item's layout
fn c11_post(mut items: Vec<Item>) -> Vec<Item> {
    // "const types" are an edge position too: type some consts by an integer alias of the same file
    let int_alias: Option<String> = items.iter().find(|i| matches!(&i.kind, Kind::Alias { ty: Ty::Prim(p) } if matches!(p, Prim::U8 | Prim::U16 | Prim::U32 | Prim::I8 | Prim::I16 | Prim::I32 | Prim::I54 | Prim::U53)) && i.generics.is_empty()).map(|i| i.name.clone());
    if let Some(a) = int_alias {
        for it in items.iter_mut() {
            if let Kind::Const { ty, .. } = &mut it.kind {
                if it.layout % 2 == 0 {
                    *ty = Ty::user(&a);
                }
            }
        }
    }
    // a field may be overridden for ONE language (`#[typeshare(swift(type = "String"))]`): for every other language it still
    // names its Rust type, and the definition it names must still come first there
    for it in items.iter_mut() {
        let sel = it.layout as usize;
        let mut ov = |f: &mut Field, k: usize| {
            if (sel + k) % 4 == 0 && !f.ty.user_refs().is_empty() {
                let (lang, text) = [("swift", "String"), ("kotlin", "String"), ("typescript", "string"), ("go", "string")][(sel / 4 + k) % 4];
                f.type_override = Some((lang.to_string(), text.to_string()));
            }
        };
        match &mut it.kind {
            Kind::Struct { shape: Shape::Named(fs), .. } => fs.iter_mut().enumerate().for_each(|(k, f)| ov(f, k)),
            Kind::Enum { variants, .. } => {
                for (vi, v) in variants.iter_mut().enumerate() {
                    if let Payload::Struct { fields, .. } = &mut v.payload {
                        fields.iter_mut().enumerate().for_each(|(k, f)| ov(f, k + vi));
                    }
                }
            }
            _ => {}
        }
    }
    let seed = items.first().map(|i| i.layout).unwrap_or(0);
    items.sort_by_key(|i| fnv(&[i.name.as_bytes(), &[seed]]));
    items
}
fn c11_nontrivial(c: &ProgCase) -> bool {
    let es = edges(&c.items);
    es.len() >= 3 || !acyclic(c.items.len(), &es) || es.iter().any(|e| e.3 != "direct")
}
pub fn c11_dag() -> FactCheck {
    FactCheck { name: "c11-order-dag", gen: c11_gen_dag, langs: &C11_LANGS, oracle: c11_oracle, nontrivial: c11_nontrivial, labels: no_labels, cfgs: cfg_strategy, exec_python: true, post: c11_post }
}
pub fn c11_cyclic() -> FactCheck {
    FactCheck { name: "c11-order-cyclic", gen: c11_gen_cyclic, langs: &C11_LANGS, oracle: c11_oracle, nontrivial: c11_nontrivial, labels: no_labels, cfgs: cfg_strategy, exec_python: true, post: c11_post }
}

// =============================================================================================== C12

const PY_HELPER_UNIVERSE: &[&str] = &[
    "List", "Dict", "Optional", "Union", "Literal", "Generic", "TypeVar", "Annotated", "Any", "BaseModel", "Field", "ConfigDict",
    "BeforeValidator", "PlainSerializer", "AnyUrl", "Enum", "datetime", "serialize_binary_data", "deserialize_binary_data",
    "serialize_datetime_data", "parse_rfc3339",
];

fn depth_class(t: &Ty, pred: &dyn Fn(&Ty) -> bool) -> Option<usize> {
    fn go(t: &Ty, d: usize, pred: &dyn Fn(&Ty) -> bool, best: &mut Option<usize>) {
        let t = t.peel();
        if pred(t) {
            *best = Some(best.map(|b| b.max(d)).unwrap_or(d));
        }
        match t {
            Ty::User { args, .. } => args.iter().for_each(|a| go(a, d + 1, pred, best)),
            Ty::Vec(x) | Ty::Array(x, _) | Ty::Slice(x) | Ty::Opt(x) => go(x, d + 1, pred, best),
            Ty::Map(k, v) => {
                go(k, d + 1, pred, best);
                go(v, d + 1, pred, best);
            }
            _ => {}
        }
    }
    let mut best = None;
    go(t, 0, pred, &mut best);
    best
}

/// names of the helper universe (typing / pydantic / enum / datetime / TypeVars) a Python module uses in class bodies,
/// module-level assignments or function signatures and bodies without importing or defining them: (name, position)
pub fn python_missing_helpers(raw: &serde_json::Value, f: &OFile, generic_names: &[&String]) -> Vec<(String, String)> {
    let mut defined: Vec<String> = f.helper_defs.clone();
    for i in &f.imports {
        defined.extend(i.names.iter().cloned());
    }
    let mut used: Vec<(String, String)> = vec![];
    for c in raw["classes"].as_array().into_iter().flatten() {
        for n in c["used_names"].as_array().into_iter().flatten().chain(c["base_names"].as_array().into_iter().flatten()) {
            used.push((n.as_str().unwrap_or("").to_string(), "class".into()));
        }
    }
    for a in raw["assigns"].as_array().into_iter().flatten() {
        for n in a["used_names"].as_array().into_iter().flatten() {
            used.push((n.as_str().unwrap_or("").to_string(), "assign".into()));
        }
    }
    for fun in raw["funcs"].as_array().into_iter().flatten() {
        for n in fun["used_names"].as_array().into_iter().flatten() {
            used.push((n.as_str().unwrap_or("").to_string(), "function".into()));
        }
    }
    let mut out: Vec<(String, String)> = vec![];
    for (n, pos) in used {
        let in_universe = PY_HELPER_UNIVERSE.contains(&n.as_str()) || generic_names.iter().any(|g| **g == n);
        if in_universe && !defined.contains(&n) && !out.iter().any(|(m, _)| *m == n) {
            out.push((n, pos));
        }
    }
    out
}

fn c12_oracle(ctx: &Ctx) -> Vec<Violation> {
    let mut out = vec![];
    let f = ctx.file();
    // where (position, depth) does a helper-named type occur in the observed trees
    let mut uses: Vec<(String, String)> = vec![]; // (helper name, position)
    for d in &f.decls {
        for (role, t) in d.all_types() {
            for n in t.names() {
                uses.push((n.to_string(), format!("{}", role.split(':').next().unwrap_or(""))));
            }
        }
    }
    match ctx.lang {
        Lang::Swift => {
            for (n, pos) in &uses {
                if n == "CodableVoid" && !f.helper_defs.iter().any(|h| h == "CodableVoid") {
                    out.push(Violation::new(format!("swift/CodableVoid/{pos}"), format!("swift: `CodableVoid` is used ({pos}) but not defined in the output")));
                    break;
                }
            }
        }
        Lang::Scala => {
            for u in ["UByte", "UShort", "UInt", "ULong"] {
                if let Some((_, pos)) = uses.iter().find(|(n, _)| n == u) {
                    if !f.helper_defs.iter().any(|h| h == u) {
                        // classify where unsigned types sit in the Rust source: the recorded finding is that typeshare's scan for
                        // unsigned types is shallow (depth <= 1, not through arrays/slices, not in const types)
                        let mut shallow_visible = false;
                        for it in ctx.items.iter().filter(|i| i.annotated) {
                            let mut tys: Vec<&Ty> = vec![];
                            match &it.kind {
                                Kind::Struct { shape: Shape::Named(fs), .. } => tys.extend(fs.iter().filter(|f| !f.skipped()).map(|f| &f.ty)),
                                Kind::Struct { shape: Shape::Newtype(t), .. } => tys.push(t),
                                Kind::Enum { variants, .. } => {
                                    for v in variants.iter().filter(|v| !v.skipped()) {
                                        match &v.payload {
                                            Payload::Newtype(t) => tys.push(t),
                                            Payload::Struct { fields, .. } => tys.extend(fields.iter().filter(|f| !f.skipped()).map(|f| &f.ty)),
                                            _ => {}
                                        }
                                    }
                                }
                                Kind::Alias { ty } => tys.push(ty),
                                _ => {}
                            }
                            for t in tys {
                                let t = t.peel();
                                let un = |x: &Ty| matches!(x.peel(), Ty::Prim(p) if p.is_unsigned());
                                let vis = match t {
                                    Ty::Prim(p) => p.is_unsigned(),
                                    Ty::Opt(i) | Ty::Vec(i) => un(i),
                                    Ty::Map(k, v) => un(k) || un(v),
                                    Ty::User { args, .. } => args.iter().any(|a| un(a)),
                                    _ => false,
                                };
                                if vis {
                                    shallow_visible = true;
                                }
                            }
                        }
                        let _ = pos;
                        out.push(Violation::new(
                            format!("scala/unsigned-alias-undefined/{}", if shallow_visible { "although-a-shallow-use-exists" } else { "only-deep-or-array-slice-or-const-uses" }),
                            format!("scala: `{u}` is used but the output defines no `type {u} = ..` alias"),
                        ));
                        break;
                    }
                }
            }
        }
        Lang::TypeScript => {
            // A Date (or mapped Uint8Array) field only survives JSON through the reviver / replacer pair typeshare writes
            // next to the types. The reviver is keyed by field name, so this is demanded where the back end can address
            // the value: a struct field or struct-variant field that is the special type itself, possibly optional
            // (Option, Option<Option>, transparent wrappers). Nothing is demanded for dates inside Vec / HashMap / arrays.
            let mut direct: Vec<(String, &'static str)> = vec![];
            for (_, _, fields, _, _) in containers(ctx.items) {
                for fl in fields.iter().filter(|f| !f.skipped()) {
                    let mut t = fl.ty.peel();
                    while let Ty::Opt(i) = t {
                        t = i.peel();
                    }
                    if matches!(t, Ty::DateTime) {
                        direct.push((fl.name.clone(), "Date"));
                    }
                    if matches!(t, Ty::Vec(i) if matches!(i.peel(), Ty::Prim(Prim::U8))) && ctx.cfg.type_mappings.get("Vec<u8>").map(|s| s.as_str()) == Some("Uint8Array") {
                        direct.push((fl.name.clone(), "Uint8Array"));
                    }
                }
            }
            for (fname, special) in direct.iter() {
                if uses.iter().any(|(n, _)| n == special) {
                    for helper in ["ReviverFunc", "ReplacerFunc"] {
                        let defined = ctx.text.contains(&format!("export const {helper} =")) || ctx.text.contains(&format!("export function {helper}("));
                        if !defined {
                            out.push(Violation::new(format!("ts/helper-undefined/{helper}/{special}"), format!("typescript: field `{fname}` is a `{special}` but `{helper}` is not defined in the output")));
                        }
                    }
                }
            }
        }
        Lang::Go => {
            let imported: Vec<&str> = f.imports.iter().map(|i| i.module.rsplit('/').next().unwrap_or("")).collect();
            for (n, pos) in &uses {
                if let Some((pkg, _)) = n.split_once('.') {
                    if !imported.contains(&pkg) {
                        out.push(Violation::new(format!("go/package-not-imported/{pkg}/{pos}"), format!("go: `{n}` is used ({pos}) but package `{pkg}` is not imported")));
                    }
                }
            }
            // json is used by every generated (un)marshaller
            if ctx.text.contains("json.") && !imported.contains(&"json") {
                out.push(Violation::new("go/package-not-imported/json/body", "go: `json.` is used in function bodies but encoding/json is not imported"));
            }
        }
        Lang::Python => {
            if let Some(py) = &ctx.obs.py {
                let raw = &py.raw;
                let generic_names: Vec<&String> = ctx.items.iter().flat_map(|i| i.generics.iter()).collect();
                let mut reported: Vec<String> = vec![];
                for (n, pos) in python_missing_helpers(raw, f, &generic_names) {
                    reported.push(n.clone());
                    let class = if generic_names.iter().any(|g| **g == n) { "TypeVar".to_string() } else { n.clone() };
                    out.push(Violation::new(format!("python/name-not-imported-or-defined/{class}/{pos}"), format!("python: `{n}` is used ({pos}) but neither imported nor defined in the module")));
                }
                if let Some((ty, msg, _line, name)) = &py.exec_error {
                    if ty == "NameError" {
                        let n = name.clone().unwrap_or_default();
                        let in_universe = PY_HELPER_UNIVERSE.contains(&n.as_str()) || generic_names.iter().any(|g| **g == n);
                        if in_universe && !reported.contains(&n) {
                            out.push(Violation::new(format!("python/nameerror-at-import/{n}"), format!("python: importing the module raises NameError: {msg}")));
                        }
                    }
                }
            }
        }
        _ => {}
    }
    out
}
fn c12_gen() -> GenCfg {
    let mut g = GenCfg::base();
    g.kinds = [5, 2, 0, 1, 4, 4, 1];
    g.ty_depth = 4;
    g.field_renames = false;
    g.rename_all = false;
    g.variant_renames = false;
    g.kw_fields = false;
    g.custom_keys = true; // keyword tag / content keys make Python introduce Field(alias=..) and ConfigDict
    g.max_fields = 3;
    g
}
/// DateTime is a trigger type too (TS reviver/replacer, Python datetime + custom (de)serialisers); Kotlin / Swift / Scala
/// reject it, so only a sixth of the structs get such a field
fn c12_post(mut items: Vec<Item>) -> Vec<Item> {
    for it in items.iter_mut() {
        let seed = it.layout as usize;
        if seed % 6 != 0 {
            continue;
        }
        if let Kind::Struct { shape: Shape::Named(fs), .. } = &mut it.kind {
            if fs.iter().any(|f| f.name == "due_at") {
                continue;
            }
            let dt = Ty::DateTime;
            let ty = match (seed / 6) % 6 {
                0 => dt,
                1 => Ty::Opt(Box::new(dt)),
                2 => Ty::Opt(Box::new(Ty::Opt(Box::new(dt)))),
                3 => Ty::Vec(Box::new(dt)),
                4 => Ty::Map(Box::new(Ty::Prim(Prim::String)), Box::new(Ty::Opt(Box::new(dt)))),
                _ => Ty::Wrap(Wrapper::Box, Box::new(Ty::Opt(Box::new(Ty::Opt(Box::new(dt)))))),
            };
            fs.push(Field::new("due_at", ty));
        }
    }
    // byte vectors (mapped to `bytes` / `Uint8Array` by some configurations) as a field AND in positions that are written
    // after it: alias target, newtype-variant payload, element of a container
    if items.first().map(|i| i.layout % 5 == 0).unwrap_or(false) && !items.iter().any(|i| i.name == "BlobHolder") {
        let bytes = || Ty::Vec(Box::new(Ty::Prim(Prim::U8)));
        items.push(Item::new("BlobHolder", Kind::Struct { shape: Shape::Named(vec![Field::new("raw", bytes()), Field::new("maybe_raw", Ty::Opt(Box::new(bytes())))]), rename_all: None }));
        let sel = items[0].layout / 5;
        if sel % 2 == 0 {
            items.push(Item::new("ZBlobAlias", Kind::Alias { ty: bytes() }));
        }
        if sel % 3 != 1 {
            let mut v = Variant::unit("Binary");
            v.payload = Payload::Newtype(bytes());
            items.push(Item::new("ZBlobEvent", Kind::Enum { variants: vec![v, Variant::unit("Nothing")], rename_all: None, tag: Some("type".into()), content: Some("content".into()) }));
        }
        if sel % 4 == 3 {
            items.push(Item::new("ZBlobLists", Kind::Struct { shape: Shape::Named(vec![Field::new("chunks", Ty::Vec(Box::new(bytes())))]), rename_all: None }));
        }
    }
    // Foreign date / URL types under their usual names, written without and with type arguments and path-qualified
    // (`bson::DateTime`, `chrono::DateTime<Utc>`, `url::Url`): half of the configurations map them to `datetime` / `AnyUrl`,
    // the names whose import and (de)serialiser functions the Python back end then has to bring along
    if items.first().map(|i| i.layout % 7 == 0).unwrap_or(false) && !items.iter().any(|i| i.name == "StampHolder") {
        let sel = items[0].layout / 7;
        let plain = || Ty::user("DateTime");
        let qual = || Ty::Qual(vec!["bson".into()], Box::new(Ty::user("DateTime")));
        let generic = || Ty::Qual(vec!["chrono".into()], Box::new(Ty::User { name: "DateTime".into(), args: vec![Ty::user("Utc")] }));
        let url = || Ty::Qual(vec!["url".into()], Box::new(Ty::user("Url")));
        let fields = match sel % 6 {
            0 => vec![Field::new("created_at", qual())],
            1 => vec![Field::new("history", Ty::Vec(Box::new(plain())))],
            2 => vec![Field::new("created_at", generic())],
            3 => vec![Field::new("home", url()), Field::new("seen_at", Ty::Opt(Box::new(plain())))],
            4 => vec![Field::new("by_name", Ty::Map(Box::new(Ty::Prim(Prim::String)), Box::new(qual())))],
            _ => vec![Field::new("home", Ty::Opt(Box::new(url())))],
        };
        items.push(Item::new("StampHolder", Kind::Struct { shape: Shape::Named(fields), rename_all: None }));
        if sel % 5 == 4 {
            items.push(Item::new("ZStampAlias", Kind::Alias { ty: plain() }));
        }
    }
    items
}
fn c12_cfgs() -> BoxedStrategy<Cfg> {
    (cfg_strategy(), any::<bool>(), any::<bool>())
        .prop_map(|(mut c, bytes, stamps)| {
            if stamps {
                c.type_mappings.insert("DateTime".into(), "datetime".into());
                c.type_mappings.insert("Url".into(), "AnyUrl".into());
            }
            if bytes {
                // `bytes` is what Python wants, `Uint8Array` what TypeScript wants (one table for all languages here)
                let v = if c.version_header { "Uint8Array" } else { "bytes" };
                c.type_mappings.insert("Vec<u8>".into(), v.into());
            }
            c
        })
        .boxed()
}
fn c12_nontrivial(c: &ProgCase) -> bool {
    let mut nt = false;
    let mut triggers = 0;
    for_all_types(&c.items, &mut |t| {
        let trig = |x: &Ty| matches!(x, Ty::Prim(Prim::Unit)) || matches!(x, Ty::Prim(p) if p.is_unsigned()) || matches!(x, Ty::Opt(_) | Ty::Vec(_) | Ty::Map(..) | Ty::Param(_));
        if let Some(d) = depth_class(t, &trig) {
            triggers += 1;
            if d >= 2 {
                nt = true;
            }
        }
    });
    nt || triggers >= 2
}
pub fn c12() -> FactCheck {
    FactCheck { name: "c12-helpers", gen: c12_gen, langs: &ALL_LANGS, oracle: c12_oracle, nontrivial: c12_nontrivial, labels: no_labels, cfgs: c12_cfgs, exec_python: true, post: c12_post }
}
