//! C01 (field keys), C02 (enum wire encoding), C03 (exactly the annotated items/members), C04 (optionality), C05 (type translation).
use crate::common::*;
use crate::factcheck::*;
use crate::gen::{self, GenCfg};
use crate::model::*;
use crate::obs::*;
use crate::prog::*;
use crate::ts::{self, Cfg, Lang, ALL_LANGS};
use crate::tycmp;
use proptest::prelude::*;

fn is_kw_field(f: &Field) -> bool {
    f.raw || gen::TARGET_KW_FIELD_NAMES.contains(&f.name.as_str())
}

// =============================================================================================== C01

fn c01_gen() -> GenCfg {
    let mut g = GenCfg::base();
    g.kinds = [6, 0, 0, 1, 5, 0, 0];
    g.unknown_rule = true;
    g.ty_depth = 1;
    g.max_fields = 6;
    g.skips = true;
    g.item_renames = true;
    g.readonly = true;
    g
}

fn c01_oracle(ctx: &Ctx) -> Vec<Violation> {
    let mut out = vec![];
    for (ii, vi, fields, rule, ckind) in containers(ctx.items) {
        let live = live_fields(fields);
        let Some(of) = observed_fields(ctx, ii, vi) else {
            if ctx.counting {
                ctx.run.label("c01/container-not-located");
            }
            continue;
        };
        if of.len() != live.len() {
            if ctx.counting {
                ctx.run.label("c01/count-mismatch(left to C03)");
            }
            continue;
        }
        // two members that end up with the same target identifier (e.g. keys `user-id` and `user_id`) cannot be told apart
        {
            let mut ids: Vec<&str> = of.iter().map(|o| o.ident.as_str()).collect();
            ids.sort();
            let n = ids.len();
            ids.dedup();
            if ids.len() != n {
                if ctx.counting {
                    ctx.run.label("c01/ambiguous-target-identifiers(skipped)");
                }
                continue;
            }
        }
        // an enum-level rule must not reach variant fields
        let enum_rule = match (&ctx.items[ii].kind, vi) {
            (Kind::Enum { rename_all, .. }, Some(_)) => rename_all.clone(),
            _ => None,
        };
        for (f, o) in live.iter().zip(of.iter()) {
            let Some(want) = serde_field_key(f, rule) else { continue };
            if ctx.lang == Lang::Scala && want.contains('-') {
                continue;
            }
            if ctx.counting {
                ctx.run.label(&format!("c01/compared/{}", ctx.l()));
            }
            if o.key == want {
                continue;
            }
            let relation = if o.key == f.name && f.rename.is_some() {
                "used=ident-not-rename"
            } else if o.key == f.name {
                "used=ident-not-rule"
            } else if enum_rule.is_some() && f.rename.is_none() && serde_field_key(f, &enum_rule).as_deref() == Some(o.key.as_str()) {
                "used=enum-rule-on-variant-field"
            } else if want.contains('-') && o.key == want.replace('-', "_") {
                "binding-missing-for-dashed"
            } else if want.contains('-') {
                "other-dashed"
            } else {
                "other"
            };
            out.push(Violation::new(
                format!("{}/{}/key/{}", ctx.l(), ckind, relation),
                format!(
                    "{}: field `{}{}` of {} `{}`{}: serde key {:?}, generated binding {:?} (identifier `{}`, explicit binding: {})",
                    ctx.lang.name(),
                    if f.raw { "r#" } else { "" },
                    f.name,
                    ckind,
                    ctx.items[ii].name,
                    vi.map(|v| format!(" variant #{v}")).unwrap_or_default(),
                    want,
                    o.key,
                    o.ident,
                    o.bound
                ),
            ));
        }
    }
    out
}

fn c01_nontrivial(c: &ProgCase) -> bool {
    containers(&c.items).iter().any(|(_, vi, fs, rule, _)| {
        vi.is_some() || fs.iter().any(|f| !f.skipped() && (is_kw_field(f) || serde_field_key(f, rule).map(|k| k != f.name).unwrap_or(false)))
    })
}
fn c01_labels(c: &ProgCase) -> Vec<String> {
    let mut l = vec![];
    for (_, vi, fs, rule, _) in containers(&c.items) {
        for f in fs.iter().filter(|f| !f.skipped()) {
            let k = serde_field_key(f, rule).unwrap_or_default();
            let shape = if f.rename.is_some() { if k.contains('-') { "rename-dashed" } else { "rename-plain" } } else if rule.is_some() { "rule" } else { "none" };
            l.push(format!("c01/field/{}/{}{}", if vi.is_some() { "variant" } else { "struct" }, shape, if is_kw_field(f) { "/kw" } else { "" }));
        }
    }
    l
}

/// serde's enum-level `rename_all_fields` only applies to variants without a rule of their own: written next to
/// per-variant rules it must not change a single key
fn c01_post(mut items: Vec<Item>) -> Vec<Item> {
    for it in items.iter_mut() {
        if it.layout % 3 != 0 {
            continue;
        }
        if let Kind::Enum { variants, .. } = &it.kind {
            let svs: Vec<&Variant> = variants.iter().filter(|v| matches!(v.payload, Payload::Struct { .. })).collect();
            let all_ruled = !svs.is_empty() && svs.iter().all(|v| matches!(&v.payload, Payload::Struct { rename_all: Some(_), .. }));
            if all_ruled {
                it.decoy_rename_all_fields = Some(crate::gen::RULES[(it.layout as usize / 3) % 8].to_string());
            }
        }
    }
    items
}
pub fn c01() -> FactCheck {
    FactCheck { name: "c01-keys", gen: c01_gen, langs: &ALL_LANGS, oracle: c01_oracle, nontrivial: c01_nontrivial, labels: c01_labels, cfgs: cfg_strategy_acr, exec_python: false, post: c01_post }
}

// =============================================================================================== C02

fn c02_gen() -> GenCfg {
    let mut g = GenCfg::base();
    g.kinds = [1, 0, 0, 4, 6, 0, 0];
    g.ty_depth = 1;
    g.max_variants = 6;
    g.field_renames = false;
    g.item_renames = true;
    g
}

fn sites_ne<'a>(sites: &'a [(String, String)], want: &str) -> Vec<&'a (String, String)> {
    sites.iter().filter(|(_, v)| v != want).collect()
}

fn c02_oracle(ctx: &Ctx) -> Vec<Violation> {
    let mut out = vec![];
    for (ii, it) in ctx.items.iter().enumerate() {
        if !it.annotated || it.serialized_as.is_some() {
            continue;
        }
        let Kind::Enum { variants, rename_all, tag, content } = &it.kind else { continue };
        let Some(d) = ctx.decl_of(ii) else { continue };
        if !matches!(d.kind, OKind::UnitEnum | OKind::AlgEnum) {
            continue;
        }
        let live = live_variants(variants);
        let ekind = if tag.is_some() { "tagged" } else { "unit" };
        if d.cases.len() != live.len() {
            out.push(Violation::new(
                format!("{}/{}/arity/cases={}-variants", ctx.l(), ekind, if d.cases.len() < live.len() { "fewer-than" } else { "more-than" }),
                format!("{}: enum `{}` has {} non-skipped variants but {} cases on the foreign side", ctx.lang.name(), it.name, live.len(), d.cases.len()),
            ));
            continue;
        }
        if ctx.counting {
            ctx.run.label(&format!("c02/compared/{}/{}", ctx.l(), ekind));
        }
        // enum-level tag / content sites
        if let (Some(t), Some(c)) = (tag, content) {
            for (site, v) in sites_ne(&d.tag, t) {
                out.push(Violation::new(format!("{}/tagged/tag/{}", ctx.l(), site), format!("{}: enum `{}`: tag key {:?} but {} has {:?}", ctx.lang.name(), it.name, t, site, v)));
            }
            for (site, v) in sites_ne(&d.content, c) {
                out.push(Violation::new(format!("{}/tagged/content/{}", ctx.l(), site), format!("{}: enum `{}`: content key {:?} but {} has {:?}", ctx.lang.name(), it.name, c, site, v)));
            }
        }
        // Python: <Enum>Types member names are derived from the wire names; two that normalise to the same member collide
        let py_literals: Vec<&String> = d.cases.iter().filter_map(|c| c.facts.iter().find(|(k, _)| k == "tag-literal").map(|(_, v)| v)).collect();
        for ((_, v), case) in live.iter().zip(d.cases.iter()) {
            let vk = match v.payload {
                Payload::Unit => "unit",
                Payload::Newtype(_) => "newtype",
                _ => "struct",
            };
            if let Some((_, lit)) = case.facts.iter().find(|(k, _)| k == "tag-literal") {
                if py_literals.iter().filter(|l| **l == lit).count() > 1 {
                    out.push(Violation::new(
                        format!("python/{ekind}/arity/types-member-names-collide"),
                        format!("python: enum `{}`: variant `{}` shares the member `{}` of the Types class with another variant (wire names differ only in case/separators)", it.name, v.name, lit),
                    ));
                    continue;
                }
            }
            if let Some(want) = serde_variant_wire(v, rename_all) {
                for (site, got) in sites_ne(&case.wire, &want) {
                    let rel = if *got == v.name { "used=ident" } else { "other" };
                    out.push(Violation::new(
                        format!("{}/{}/{}/wire/{}/{}", ctx.l(), ekind, vk, site, rel),
                        format!("{}: enum `{}` variant `{}`: serde wire name {:?}, but {} has {:?}", ctx.lang.name(), it.name, v.name, want, site, got),
                    ));
                }
                if case.wire.is_empty() && ctx.counting {
                    ctx.run.label(&format!("c02/no-wire-site/{}", ctx.l()));
                }
            }
            if let (Some(t), Some(c)) = (tag, content) {
                for (site, got) in sites_ne(&case.tag, t) {
                    out.push(Violation::new(format!("{}/tagged/{}/tag/{}", ctx.l(), vk, site), format!("{}: enum `{}` variant `{}`: tag key {:?} but {} has {:?}", ctx.lang.name(), it.name, v.name, t, site, got)));
                }
                for (site, got) in sites_ne(&case.content, c) {
                    out.push(Violation::new(format!("{}/tagged/{}/content/{}", ctx.l(), vk, site), format!("{}: enum `{}` variant `{}`: content key {:?} but {} has {:?}", ctx.lang.name(), it.name, v.name, c, site, got)));
                }
                // payload kind: unit <=> no payload
                let has_payload = case.payload.is_some() || !case.fields.is_empty();
                let want_payload = !matches!(v.payload, Payload::Unit);
                let unit_like = match &v.payload {
                    Payload::Newtype(t) => {
                        let mut x = t.peel();
                        while let Ty::Opt(i) = x {
                            x = i.peel();
                        }
                        matches!(x, Ty::Prim(Prim::Unit))
                    }
                    _ => false,
                };
                if has_payload != want_payload && !(ctx.lang == Lang::TypeScript && unit_like) {
                    out.push(Violation::new(
                        format!("{}/tagged/{}/payload-kind", ctx.l(), vk),
                        format!("{}: enum `{}` variant `{}`: payload expected={} found={}", ctx.lang.name(), it.name, v.name, want_payload, has_payload),
                    ));
                }
            }
            // exactly one case per variant, all sites agreeing on the case
            for (k, val) in &case.facts {
                let bad = match k.as_str() {
                    "decode-arms" | "encode-arms" | "CodingKeys-entries" | "types-members" | "decode-arm" => val != "1",
                    "decode-assigns" | "encode-codingkey" => *val != case.ident,
                    "tag-default" => case.facts.iter().find(|(k2, _)| k2 == "tag-literal").map(|(_, l)| l != val).unwrap_or(false),
                    _ => false,
                };
                if bad {
                    out.push(Violation::new(
                        format!("{}/{}/{}/arity/{}", ctx.l(), ekind, vk, k),
                        format!("{}: enum `{}` variant `{}` (case `{}`): {} = {}", ctx.lang.name(), it.name, v.name, case.ident, k, val),
                    ));
                }
            }
            if ctx.lang == Lang::Go && tag.is_some() && !case.facts.iter().any(|(k, _)| k == "decode-arm") {
                out.push(Violation::new(format!("go/tagged/{vk}/arity/decode-arm-missing"), format!("go: enum `{}` variant `{}`: no `case` label in UnmarshalJSON", it.name, v.name)));
            }
        }
        for (k, val) in &d.facts {
            if k.ends_with("-extra") {
                out.push(Violation::new(format!("{}/{}/arity/{}", ctx.l(), ekind, k), format!("{}: enum `{}`: {} {}", ctx.lang.name(), it.name, k, val)));
            }
        }
    }
    out
}
fn c02_nontrivial(c: &ProgCase) -> bool {
    c.items.iter().any(|it| match &it.kind {
        Kind::Enum { variants, rename_all, tag, content } => {
            let renamed = variants.iter().any(|v| !v.skipped() && serde_variant_wire(v, rename_all).map(|w| w != v.name).unwrap_or(false));
            let keys = tag.as_deref().map(|t| t != "type").unwrap_or(false) || content.as_deref().map(|c| c != "content").unwrap_or(false);
            let kinds: std::collections::HashSet<u8> = variants.iter().map(|v| match v.payload { Payload::Unit => 0, Payload::Newtype(_) => 1, _ => 2 }).collect();
            renamed || keys || kinds.len() >= 2
        }
        _ => false,
    })
}
fn c02_labels(c: &ProgCase) -> Vec<String> {
    let mut l = vec![];
    for it in &c.items {
        if let Kind::Enum { variants, rename_all, tag, .. } = &it.kind {
            l.push(format!("c02/enum/{}/{}", if tag.is_some() { "tagged" } else { "unit" }, rename_all.as_deref().unwrap_or("no-rule")));
            for v in variants {
                if v.rename.is_some() {
                    l.push("c02/variant/renamed".into());
                }
            }
            if !it.generics.is_empty() {
                l.push("c02/enum/generic".into());
            }
        }
    }
    l
}
pub fn c02() -> FactCheck {
    FactCheck { name: "c02-enums", gen: c02_gen, langs: &ALL_LANGS, oracle: c02_oracle, nontrivial: c02_nontrivial, labels: c02_labels, cfgs: cfg_strategy_acr, exec_python: false, post: no_post }
}

// =============================================================================================== C03

fn c03_gen() -> GenCfg {
    let mut g = GenCfg::base();
    g.min_items = 2;
    g.max_items = 8;
    g.kinds = [5, 1, 1, 3, 4, 2, 1];
    g.skips = true;
    g.decoys = true;
    g.unannotated = true;
    g.mods = true;
    g.ty_depth = 1;
    g.generics = false;
    g.item_renames = true;
    g.cross_refs = false; // un-annotated decoys are never referenced
    g
}

fn field_matches(f: &Field, key: &Option<String>, o: &OField) -> bool {
    let cands = [Some(f.name.clone()), key.clone(), key.as_ref().map(|k| k.replace('-', "_")), Some(format!("{}_", f.name))];
    cands.iter().flatten().any(|c| norm(c) == norm(&o.ident) || *c == o.key)
}
fn variant_matches(v: &Variant, wire: &Option<String>, c: &OCase) -> bool {
    let ni = norm(&c.ident);
    ni.ends_with(&norm(&v.name)) || wire.as_ref().map(|w| norm(w) == ni || c.ident == *w).unwrap_or(false)
}

fn c03_oracle(ctx: &Ctx) -> Vec<Violation> {
    let mut out = vec![];
    let f = ctx.file();
    let p = ctx.cfg.prefix(ctx.lang);
    for (ii, it) in ctx.items.iter().enumerate() {
        let kind = it.kind_name();
        if !it.annotated {
            // nothing may be defined for it
            for d in &f.decls {
                if d.kind != OKind::Helper && (norm(&d.name) == norm(&it.name) || norm(&d.name) == norm(&format!("{p}{}", it.name)) || norm(&d.name) == norm(it.renamed())) {
                    out.push(Violation::new(format!("{}/{}/item-extra/unannotated", ctx.l(), kind), format!("{}: un-annotated item `{}` is defined in the output as `{}`", ctx.lang.name(), it.name, d.name)));
                }
            }
            continue;
        }
        let Some(d) = ctx.decl_of(ii) else {
            out.push(Violation::new(
                format!("{}/{}/item-missing/depth{}", ctx.l(), kind, it.mod_path.len().min(2)),
                format!("{}: annotated {} `{}` (module depth {}) has no definition in the output (and no error was reported)", ctx.lang.name(), kind, it.name, it.mod_path.len()),
            ));
            continue;
        };
        if ctx.counting {
            ctx.run.label(&format!("c03/item-found/{}", ctx.l()));
        }
        // members
        match &it.kind {
            Kind::Struct { shape: Shape::Named(fs), rename_all } if it.serialized_as.is_none() && d.kind == OKind::Struct => {
                out.extend(members(ctx, &it.name, "struct", fs, rename_all, &d.fields));
            }
            Kind::Enum { variants, rename_all, .. } if it.serialized_as.is_none() && matches!(d.kind, OKind::UnitEnum | OKind::AlgEnum) => {
                let live = live_variants(variants);
                let exp: Vec<(&Variant, Option<String>)> = live.iter().map(|(_, v)| (*v, serde_variant_wire(v, rename_all))).collect();
                if exp.len() != d.cases.len() || !exp.iter().zip(d.cases.iter()).all(|((v, w), c)| variant_matches(v, w, c)) {
                    let missing: Vec<&str> = exp.iter().filter(|(v, w)| !d.cases.iter().any(|c| variant_matches(v, w, c))).map(|(v, _)| v.name.as_str()).collect();
                    let extra: Vec<&str> = d.cases.iter().filter(|c| !exp.iter().any(|(v, w)| variant_matches(v, w, c))).map(|c| c.ident.as_str()).collect();
                    let rel = if !missing.is_empty() { "member-missing" } else if !extra.is_empty() || d.cases.len() > exp.len() { "member-extra" } else { "member-order" };
                    let skipped_present = variants.iter().any(|v| v.skipped() && extra.iter().any(|e| norm(e).ends_with(&norm(&v.name))));
                    out.push(Violation::new(
                        format!("{}/enum-variants/{}{}", ctx.l(), rel, if skipped_present { "/skipped-variant-present" } else { "" }),
                        format!("{}: enum `{}`: expected variants {:?}, found cases {:?} (missing {:?}, extra {:?})", ctx.lang.name(), it.name, exp.iter().map(|(v, _)| &v.name).collect::<Vec<_>>(), d.cases.iter().map(|c| &c.ident).collect::<Vec<_>>(), missing, extra),
                    ));
                }
                // struct variants: helper members
                for (vi, v) in live.iter() {
                    if let Payload::Struct { fields, rename_all: vr } = &v.payload {
                        match observed_fields(ctx, ii, Some(*vi)) {
                            Some(of) => out.extend(members(ctx, &format!("{}::{}", it.name, v.name), "variant", fields, vr, of)),
                            None => {
                                if ctx.lang != Lang::TypeScript {
                                    out.push(Violation::new(format!("{}/variant-helper/item-missing", ctx.l()), format!("{}: no helper definition found for struct variant `{}::{}`", ctx.lang.name(), it.name, v.name)));
                                }
                            }
                        }
                    }
                }
            }
            _ => {}
        }
    }
    for &e in &ctx.m.extra {
        let d = &f.decls[e];
        // variant classes / Types of Python and friends are Helper kind already; anything else is invented
        out.push(Violation::new(format!("{}/{:?}/item-extra/unknown", ctx.l(), d.kind), format!("{}: definition `{}` corresponds to no annotated item", ctx.lang.name(), d.name)));
    }
    out
}

fn members(ctx: &Ctx, owner: &str, ckind: &str, fs: &[Field], rule: &Option<String>, of: &[OField]) -> Vec<Violation> {
    let live = live_fields(fs);
    let exp: Vec<(&Field, Option<String>)> = live.iter().map(|f| (*f, serde_field_key(f, rule))).collect();
    if exp.len() == of.len() && exp.iter().zip(of.iter()).all(|((f, k), o)| field_matches(f, k, o)) {
        return vec![];
    }
    let missing: Vec<&str> = exp.iter().filter(|(f, k)| !of.iter().any(|o| field_matches(f, k, o))).map(|(f, _)| f.name.as_str()).collect();
    let extra: Vec<&str> = of.iter().filter(|o| !exp.iter().any(|(f, k)| field_matches(f, k, o))).map(|o| o.ident.as_str()).collect();
    let dup = of.len() > exp.len() && extra.is_empty();
    let rel = if !missing.is_empty() { "member-missing" } else if dup { "dup" } else if !extra.is_empty() { "member-extra" } else { "member-order" };
    let skipped_present = fs.iter().any(|f| f.skipped() && of.iter().any(|o| norm(&o.ident) == norm(&f.name)));
    let decoy_lost = missing.iter().any(|m| fs.iter().any(|f| f.name == *m && !f.decoys.is_empty()));
    vec![Violation::new(
        format!("{}/{}-fields/{}{}{}", ctx.l(), ckind, rel, if skipped_present { "/skipped-field-present" } else { "" }, if decoy_lost { "/field-with-decoy-attr-lost" } else { "" }),
        format!("{}: {} `{}`: expected members {:?}, found {:?} (missing {:?}, extra {:?})", ctx.lang.name(), ckind, owner, exp.iter().map(|(f, _)| &f.name).collect::<Vec<_>>(), of.iter().map(|o| &o.ident).collect::<Vec<_>>(), missing, extra),
    )]
}

fn c03_nontrivial(c: &ProgCase) -> bool {
    c.items.iter().any(|it| !it.annotated || !it.mod_path.is_empty())
        || containers(&c.items).iter().any(|(_, _, fs, _, _)| fs.iter().any(|f| f.skipped() || !f.decoys.is_empty()))
        || c.items.iter().any(|it| matches!(&it.kind, Kind::Enum { variants, .. } if variants.iter().any(|v| v.skipped())))
}
fn c03_labels(c: &ProgCase) -> Vec<String> {
    let mut l = vec![];
    for it in &c.items {
        l.push(format!("c03/item/{}/{}/depth{}", it.kind_name(), if it.annotated { "annotated" } else { "decoy" }, it.mod_path.len()));
    }
    if c.items.iter().enumerate().any(|(i, a)| c.items[..i].iter().any(|b| b.name == a.name)) {
        l.push("c03/twin-identifiers-in-different-modules".into());
    }
    for (_, vi, fs, _, _) in containers(&c.items) {
        for f in fs {
            if f.skipped() {
                l.push(format!("c03/skip/{:?}/{}", f.skip, if vi.is_some() { "variant-field" } else { "field" }));
            }
            if !f.decoys.is_empty() {
                l.push("c03/decoy-attr".into());
            }
        }
    }
    l
}
/// consts cannot be generated by Kotlin/Swift (documented panic, C07) - keep them to the back ends that have them
fn c03_post(mut items: Vec<Item>) -> Vec<Item> {
    // "twins": two annotated structs in different modules that share their Rust identifier and are told apart on the
    // wire by serde(rename) - both must be generated (v1::Settings -> SettingsOne, v2::Settings -> SettingsTwo)
    let plain = |it: &Item| it.annotated && it.serialized_as.is_none() && it.generics.is_empty() && matches!(it.kind, Kind::Struct { shape: Shape::Named(_), .. });
    let idx: Vec<usize> = (0..items.len()).filter(|&i| plain(&items[i])).collect();
    'find: for (n, &a) in idx.iter().enumerate() {
        for &b in &idx[n + 1..] {
            if items[a].mod_path != items[b].mod_path && items[a].layout % 3 == 0 {
                let name = items[a].name.clone();
                items[b].name = name.clone();
                if items[a].serde_rename.is_none() {
                    items[a].serde_rename = Some(format!("{name}One"));
                }
                if items[b].serde_rename.is_none() || items[b].serde_rename == items[a].serde_rename {
                    items[b].serde_rename = Some(format!("{name}Two"));
                }
                break 'find;
            }
        }
    }
    items
}
pub fn c03() -> FactCheck {
    FactCheck { name: "c03-items", gen: c03_gen, langs: &ALL_LANGS, oracle: c03_oracle, nontrivial: c03_nontrivial, labels: c03_labels, cfgs: cfg_strategy, exec_python: false, post: c03_post }
}

// =============================================================================================== C05 (+ shared type comparison used by C04)

fn renames_of(items: &[Item]) -> Vec<(String, String)> {
    items.iter().filter_map(|it| it.serde_rename.as_ref().map(|r| (it.name.clone(), r.clone()))).collect()
}

pub struct Site<'a> {
    pub position: &'static str,
    pub owner: String,
    pub rust: &'a Ty,
    pub obs: &'a OTy,
    pub params: &'a [String],
    /// field-level bare default on a non-option type (the back end adds its own optional wrapper)
    pub defaulted: bool,
    pub field: Option<&'a Field>,
    pub ofield: Option<&'a OField>,
}

/// every (rust type, observed type) pair of the program for this language
pub fn type_sites<'a>(ctx: &'a Ctx) -> Vec<Site<'a>> {
    let mut out = vec![];
    for (ii, vi, fields, _rule, ckind) in containers(ctx.items) {
        let live = live_fields(fields);
        let Some(of) = observed_fields(ctx, ii, vi) else { continue };
        if of.len() != live.len() {
            continue;
        }
        {
            let mut ids: Vec<&str> = of.iter().map(|o| o.ident.as_str()).collect();
            ids.sort();
            let n = ids.len();
            ids.dedup();
            if ids.len() != n {
                continue;
            }
        }
        for (f, o) in live.iter().zip(of.iter()) {
            if let Some(t) = &o.ty {
                let is_opt = matches!(f.eff_ty().peel(), Ty::Opt(_));
                out.push(Site {
                    position: if ckind == "struct" { "field" } else { "variant-field" },
                    owner: format!("{}.{}", ctx.items[ii].name, f.name),
                    rust: f.eff_ty(),
                    obs: t,
                    params: &ctx.items[ii].generics,
                    defaulted: f.default == Dflt::Bare && !is_opt,
                    field: Some(*f),
                    ofield: Some(o),
                });
            }
        }
    }
    for (ii, it) in ctx.items.iter().enumerate() {
        if !it.annotated {
            continue;
        }
        let Some(d) = ctx.decl_of(ii) else { continue };
        if let Some(sa) = &it.serialized_as {
            if let Some(t) = &d.target {
                out.push(Site { position: "alias", owner: it.name.clone(), rust: sa, obs: t, params: &it.generics, defaulted: false, field: None, ofield: None });
            }
            continue;
        }
        match &it.kind {
            Kind::Alias { ty } | Kind::Struct { shape: Shape::Newtype(ty), .. } => {
                if let Some(t) = &d.target {
                    out.push(Site { position: "alias", owner: it.name.clone(), rust: ty, obs: t, params: &it.generics, defaulted: false, field: None, ofield: None });
                }
            }
            Kind::Const { ty, .. } => {
                if let Some(t) = &d.const_ty {
                    out.push(Site { position: "const", owner: it.name.clone(), rust: ty, obs: t, params: &it.generics, defaulted: false, field: None, ofield: None });
                }
            }
            Kind::Enum { variants, .. } => {
                let live = live_variants(variants);
                if live.len() != d.cases.len() {
                    continue;
                }
                for ((_, v), c) in live.iter().zip(d.cases.iter()) {
                    if let (Payload::Newtype(ty), Some(t)) = (&v.payload, &c.payload) {
                        out.push(Site { position: "payload", owner: format!("{}::{}", it.name, v.name), rust: ty, obs: t, params: &it.generics, defaulted: false, field: None, ofield: None });
                    }
                }
            }
            _ => {}
        }
    }
    out
}

fn strip_optional<'a>(lang: Lang, o: &'a OTy) -> &'a OTy {
    match (lang, o) {
        (Lang::Go, OTy::Ptr(t)) => t,
        (Lang::Kotlin | Lang::Swift | Lang::Python, OTy::Opt(t)) => t,
        _ => o,
    }
}

fn c05_oracle(ctx: &Ctx) -> Vec<Violation> {
    let mut out = vec![];
    let renames = renames_of(ctx.items);
    for s in type_sites(ctx) {
        let env = tycmp::TyEnv { lang: ctx.lang, cfg: ctx.cfg, params: s.params, renames: &renames, scala_aliases: &ctx.file().helper_aliases };
        let obs = if s.defaulted { strip_optional(ctx.lang, s.obs) } else { s.obs };
        if ctx.counting {
            ctx.run.label(&format!("c05/compared/{}/{}", ctx.l(), s.position));
        }
        if let Err(rel) = tycmp::cmp(&env, s.rust, obs) {
            let leaf = tycmp::leaf_relation(&rel);
            if ctx.lang == Lang::Scala && leaf.starts_with("unknown-target:") && ["UByte", "UShort", "UInt", "ULong"].iter().any(|u| leaf.ends_with(u)) {
                // the alias itself is missing from the output: C12's subject, nothing to compare here
                if ctx.counting {
                    ctx.run.label("c05/scala-unsigned-alias-undefined(left to C12)");
                }
                continue;
            }
            out.push(Violation::new(
                if tycmp::is_prim_relation(&rel) { format!("{}/prim/{}", ctx.l(), leaf) } else { format!("{}/{}/{}", ctx.l(), s.position, tycmp::relation_class(&rel)) },
                format!("{}: {} `{}`: Rust type `{}` translated to `{}` ({})", ctx.lang.name(), s.position, s.owner, s.rust.rust(), s.obs.show(), rel),
            ));
        }
    }
    out.extend(crate::c09_12::helper_instantiation(ctx));
    out
}

fn c05_gen() -> GenCfg {
    let mut g = GenCfg::base();
    g.kinds = [6, 2, 0, 2, 3, 3, 1];
    g.ty_depth = 5;
    g.max_fields = 4;
    g.field_renames = false;
    g.rename_all = false;
    g.variant_renames = false;
    g.kw_fields = false;
    g.custom_keys = false;
    g.item_renames = true;
    g.foreign_types = true;
    g.keyword_item_names = true; // `Type`, `Protocol`: Swift escapes them, with and without a prefix
    g
}
fn c05_nontrivial(c: &ProgCase) -> bool {
    let mut nt = false;
    for_all_types(&c.items, &mut |t| {
        if t.depth() >= 3 || t.contains(&|x| matches!(x, Ty::Wrap(..) | Ty::Ref(_) | Ty::Qual(..))) {
            nt = true;
        }
        if let Ty::User { args, .. } = t {
            if args.iter().any(|a| !matches!(a.peel(), Ty::Prim(_) | Ty::Param(_) | Ty::User { .. })) {
                nt = true;
            }
        }
    });
    nt || !c.cfg.type_mappings.is_empty()
}
pub fn for_all_types<'a>(items: &'a [Item], f: &mut dyn FnMut(&'a Ty)) {
    for it in items {
        match &it.kind {
            Kind::Struct { shape: Shape::Named(fs), .. } => fs.iter().for_each(|x| f(&x.ty)),
            Kind::Struct { shape: Shape::Newtype(t), .. } => f(t),
            Kind::Enum { variants, .. } => {
                for v in variants {
                    match &v.payload {
                        Payload::Newtype(t) => f(t),
                        Payload::Struct { fields, .. } => fields.iter().for_each(|x| f(&x.ty)),
                        _ => {}
                    }
                }
            }
            Kind::Alias { ty } | Kind::Const { ty, .. } => f(ty),
            _ => {}
        }
    }
}
fn c05_labels(c: &ProgCase) -> Vec<String> {
    let mut l = vec![];
    for_all_types(&c.items, &mut |t| l.push(format!("c05/type-depth/{}", t.depth().min(6))));
    if !c.cfg.type_mappings.is_empty() {
        l.push("c05/with-type-mappings".into());
    }
    l
}
/// configurations incl. type mappings of user types and of `Vec<u8>`
fn c05_cfgs() -> BoxedStrategy<Cfg> {
    (cfg_strategy(), proptest::sample::subsequence(vec!["Uuid", "ForeignThing", "ForeignGen"], 0..=3), any::<bool>(), any::<bool>())
        .prop_map(|(mut cfg, mapped, bytes, nps)| {
            for (i, m) in mapped.iter().enumerate() {
                cfg.type_mappings.insert(m.to_string(), format!("Mapped{i}"));
            }
            if bytes {
                cfg.type_mappings.insert("Vec<u8>".into(), "ByteBlob".into());
            }
            // nested container instances are keys of their own (the outermost mapped instance wins)
            if mapped.len() % 2 == 1 {
                cfg.type_mappings.insert("Vec<Vec<u8>>".into(), "ChunkList".into());
            }
            if nps {
                cfg.type_mappings.insert("HashMap<String,Vec<u8>>".into(), "BlobsByName".into());
            }
            cfg.go_no_pointer_slice = nps;
            cfg
        })
        .boxed()
}
/// a quarter of the programs carry the nested container instances the configurations map
fn c05_post(mut items: Vec<Item>) -> Vec<Item> {
    if items.first().map(|i| i.layout % 4 == 0).unwrap_or(false) && !items.iter().any(|i| i.name == "NestedBytes") {
        let bytes = || Ty::Vec(Box::new(Ty::Prim(Prim::U8)));
        let chunks = || Ty::Vec(Box::new(bytes()));
        let by_name = || Ty::Map(Box::new(Ty::Prim(Prim::String)), Box::new(bytes()));
        items.push(Item::new(
            "NestedBytes",
            Kind::Struct {
                shape: Shape::Named(vec![
                    Field::new("chunks", chunks()),
                    Field::new("by_name", by_name()),
                    Field::new("maybe_chunks", Ty::Opt(Box::new(chunks()))),
                    Field::new("listed", Ty::Vec(Box::new(by_name()))),
                    Field::new("plain", bytes()),
                ]),
                rename_all: None,
            },
        ));
        items.push(Item::new("ChunksAlias", Kind::Alias { ty: chunks() }));
    }
    items
}
pub fn c05() -> FactCheck {
    FactCheck { name: "c05-types", gen: c05_gen, langs: &ALL_LANGS, oracle: c05_oracle, nontrivial: c05_nontrivial, labels: c05_labels, cfgs: c05_cfgs, exec_python: false, post: c05_post }
}

// =============================================================================================== C04

fn c04_gen() -> GenCfg {
    let mut g = GenCfg::base();
    g.kinds = [6, 1, 0, 0, 4, 2, 0];
    g.ty_depth = 3;
    g.max_fields = 5;
    g.field_renames = true;
    g.kw_fields = false;
    g.decoys = true;
    g
}

/// bias types toward Option shapes: wrap some field types into Option / Option<Option> / Box<Option> ...
fn c04_post(mut items: Vec<Item>) -> Vec<Item> {
    fn tweak(f: &mut Field, k: usize) {
        let base = f.ty.clone();
        f.ty = match k % 7 {
            0 => Ty::Opt(Box::new(base)),
            1 => Ty::Opt(Box::new(Ty::Opt(Box::new(base)))),
            2 => Ty::Wrap(Wrapper::Box, Box::new(Ty::Opt(Box::new(base)))),
            3 => Ty::Opt(Box::new(Ty::Wrap(Wrapper::Box, Box::new(base)))),
            4 => Ty::Wrap(Wrapper::Arc, Box::new(Ty::Opt(Box::new(Ty::Opt(Box::new(base)))))),
            5 => Ty::Ref(Box::new(Ty::Opt(Box::new(base)))),
            _ => base,
        };
    }
    let mut k = 0usize;
    for it in items.iter_mut() {
        let seed = it.layout as usize;
        match &mut it.kind {
            Kind::Struct { shape: Shape::Named(fs), .. } => {
                // types the Python back end wraps in Annotated[.., BeforeValidator, PlainSerializer] (datetime, and bytes
                // when "Vec<u8>" is mapped): optionality has to survive that wrapping
                if seed % 16 == 0 && !fs.iter().any(|f| f.name == "stamped_at" || f.name == "raw_bytes") {
                    let mut a = Field::new("stamped_at", Ty::DateTime);
                    a.default = [Dflt::Bare, Dflt::None, Dflt::Bare, Dflt::Path][(seed / 16) % 4];
                    let mut b = Field::new("raw_bytes", if (seed / 16) % 3 == 0 { Ty::Opt(Box::new(Ty::DateTime)) } else { Ty::DateTime });
                    b.default = [Dflt::None, Dflt::Bare, Dflt::Bare][(seed / 16) % 3];
                    fs.push(a);
                    fs.push(b);
                }
                for f in fs.iter_mut() {
                    k += 1;
                    if (k + seed) % 2 == 0 {
                        tweak(f, k + seed / 2);
                    }
                    // a Swift type override does not switch optionality off
                    // (only on fields that are not Option themselves: whether an override replaces the `?` of an Option<T>
                    // as well is the override's business; the `?` a bare default adds is typeshare's)
                    if (k + seed) % 3 == 0 && !matches!(f.ty.peel(), Ty::Opt(_)) {
                        f.type_override = Some(("swift".to_string(), "Date".to_string()));
                    }
                }
            }
            Kind::Enum { variants, .. } => {
                for v in variants.iter_mut() {
                    k += 1;
                    match &mut v.payload {
                        Payload::Struct { fields, .. } => {
                            for f in fields.iter_mut() {
                                k += 1;
                                if (k + seed) % 2 == 0 {
                                    tweak(f, k + seed / 2);
                                }
                            }
                        }
                        Payload::Newtype(t) => {
                            if (k + seed) % 3 == 0 {
                                *t = Ty::Opt(Box::new(t.clone()));
                            }
                        }
                        _ => {}
                    }
                }
            }
            Kind::Alias { ty } => {
                k += 1;
                if (k + seed) % 2 == 0 {
                    *ty = Ty::Opt(Box::new(ty.clone()));
                }
            }
            _ => {}
        }
    }
    items
}

fn ty_class(t: &Ty) -> &'static str {
    let wrapped = !std::ptr::eq(t.peel(), t);
    match t.peel() {
        Ty::Opt(inner) => match inner.peel() {
            Ty::Opt(_) => if wrapped { "wrapped-OptOpt" } else { "OptOpt" },
            _ => if wrapped { "wrapped-Opt" } else { "Opt" },
        },
        _ => "T",
    }
}

fn c04_oracle(ctx: &Ctx) -> Vec<Violation> {
    let mut out = vec![];
    let renames = renames_of(ctx.items);
    for s in type_sites(ctx) {
        let rust_opt = matches!(s.rust.peel(), Ty::Opt(_));
        let double = match s.rust.peel() {
            Ty::Opt(i) => matches!(i.peel(), Ty::Opt(_)),
            _ => false,
        };
        let tc = ty_class(s.rust);
        match (s.position, s.field, s.ofield) {
            ("field" | "variant-field", Some(f), Some(o)) => {
                let want = rust_opt || f.default == Dflt::Bare;
                let dc = match f.default {
                    Dflt::None => "no-default",
                    Dflt::Bare => "bare-default",
                    Dflt::Path => "path-default",
                };
                if ctx.counting {
                    ctx.run.label(&format!("c04/cell/{}/{}/{}/{}", ctx.l(), s.position, tc, dc));
                }
                // the parts of the language's optional idiom
                let has = |m: &str| o.opt.iter().any(|x| x == m);
                let (parts, present): (Vec<&str>, Vec<bool>) = match ctx.lang {
                    Lang::TypeScript => (vec!["?"], vec![has("?")]),
                    Lang::Kotlin => (vec!["?", "= null"], vec![has("?"), has("= null")]),
                    Lang::Swift => (vec!["?", "init?"], vec![has("?"), has("init?")]),
                    Lang::Scala => (vec!["Option", "= None"], vec![has("Option"), has("= None")]),
                    Lang::Go => {
                        let vec_exception = ctx.cfg.go_no_pointer_slice && matches!(s.rust.peel(), Ty::Opt(i) if matches!(i.peel(), Ty::Vec(_)));
                        if vec_exception { (vec!["omitempty"], vec![has("omitempty")]) } else { (vec!["*", "omitempty"], vec![has("*"), has("omitempty")]) }
                    }
                    Lang::Python => (vec!["Optional", "default=None"], vec![has("Optional"), has("default=None")]),
                };
                let n_present = present.iter().filter(|b| **b).count();
                let rel = if want && n_present == 0 {
                    Some("marker=missing".to_string())
                } else if want && n_present < parts.len() {
                    let miss: Vec<&str> = parts.iter().zip(present.iter()).filter(|(_, b)| !**b).map(|(p, _)| *p).collect();
                    Some(format!("marker=partial:missing({})", miss.join("+")))
                } else if !want && n_present > 0 {
                    let extra: Vec<&str> = parts.iter().zip(present.iter()).filter(|(_, b)| **b).map(|(p, _)| *p).collect();
                    Some(format!("marker=extra({})", extra.join("+")))
                } else {
                    None
                };
                if let Some(rel) = rel {
                    out.push(Violation::new(
                        format!("{}/{}/{}/{}/{}", ctx.l(), s.position, tc, dc, rel),
                        format!("{}: field `{}` of type `{}` ({}): expected optional={}, idiom parts found {:?} (type text `{}`)", ctx.lang.name(), s.owner, s.rust.rust(), dc, want, o.opt, o.ty_text),
                    ));
                }
                // TS: Option<Option<T>> stays distinguishable (`?` plus `| null`)
                if ctx.lang == Lang::TypeScript {
                    let has_null = has("null");
                    if double != has_null {
                        out.push(Violation::new(
                            format!("ts/{}/{}/{}/double-option-{}", s.position, tc, dc, if double { "null-missing" } else { "null-extra" }),
                            format!("typescript: field `{}` of type `{}`: `| null` present={} (type text `{}`)", s.owner, s.rust.rust(), has_null, o.ty_text),
                        ));
                    }
                }
                // the marker never changes the underlying translated type
                let inner_rust: &Ty = match s.rust.peel() {
                    Ty::Opt(i) => i,
                    t => t,
                };
                let mut obs = s.obs;
                if want {
                    obs = match (ctx.lang, obs) {
                        (Lang::Go, OTy::Ptr(t)) => t,
                        (Lang::Kotlin | Lang::Swift | Lang::Scala | Lang::Python, OTy::Opt(t)) => t,
                        (Lang::TypeScript, OTy::Nullable(t)) => t,
                        (_, o) => o,
                    };
                }
                let env = tycmp::TyEnv { lang: ctx.lang, cfg: ctx.cfg, params: s.params, renames: &renames, scala_aliases: &ctx.file().helper_aliases };
                // a type override for this very language replaces the translated type (the marker rules above still apply)
                let overridden_here = f.type_override.as_ref().map(|(l, _)| l == ctx.lang.name()).unwrap_or(false);
                if overridden_here {
                    if ctx.counting {
                        ctx.run.label(&format!("c04/overridden-type/{}/{}", ctx.l(), dc));
                    }
                } else if let Err(rel) = tycmp::cmp(&env, inner_rust, obs) {
                    // capacity / category of leaves is C05's subject; here only the shape under the marker matters
                    if rel.contains("shape:") || rel.contains("arity") || rel.contains("name:") {
                        out.push(Violation::new(
                            format!("{}/{}/{}/{}/type-changed:{}", ctx.l(), s.position, tc, dc, tycmp::relation_class(&rel)),
                            format!("{}: field `{}`: underlying type of `{}` came out as `{}` ({})", ctx.lang.name(), s.owner, s.rust.rust(), s.obs.show(), rel),
                        ));
                    }
                }
            }
            ("payload", _, _) => {
                if ctx.counting {
                    ctx.run.label(&format!("c04/cell/{}/payload/{}", ctx.l(), tc));
                }
                // newtype-variant payload: marker by type only
                let found = match ctx.lang {
                    Lang::TypeScript => {
                        // `content?:` — recorded on the case
                        payload_optional(ctx, &s.owner)
                    }
                    Lang::Go if ctx.cfg.go_no_pointer_slice && matches!(s.rust.peel(), Ty::Opt(i) if matches!(i.peel(), Ty::Vec(_))) => None,
                    Lang::Go => Some(matches!(s.obs, OTy::Ptr(_))),
                    _ => Some(matches!(s.obs, OTy::Opt(_))),
                };
                if let Some(found) = found {
                    // Go: payload pointers are also used for struct-typed payloads (accessor convention) - only Option demands one
                    let bad = if ctx.lang == Lang::Go { rust_opt && !found } else { found != rust_opt };
                    if bad {
                        out.push(Violation::new(
                            format!("{}/payload/{}/marker={}", ctx.l(), tc, if rust_opt { "missing" } else { "extra" }),
                            format!("{}: payload of `{}` has Rust type `{}` but came out as `{}`", ctx.lang.name(), s.owner, s.rust.rust(), s.obs.show()),
                        ));
                    }
                }
            }
            ("alias", _, _) => {
                if ctx.counting {
                    ctx.run.label(&format!("c04/cell/{}/alias/{}", ctx.l(), tc));
                }
                let found = match ctx.lang {
                    Lang::TypeScript => ctx.file().decls.iter().find(|d| d.kind == OKind::Alias && norm(&d.name).ends_with(&norm(s.owner.as_str())) || norm(&d.name) == norm(&s.owner)).map(|d| d.target_optional),
                    Lang::Go => Some(matches!(s.obs, OTy::Ptr(_)) || (ctx.cfg.go_no_pointer_slice && rust_opt)),
                    _ => Some(matches!(s.obs, OTy::Opt(_))),
                };
                if let Some(found) = found {
                    if found != rust_opt && !(ctx.lang == Lang::TypeScript && found_lookup_failed(ctx, &s.owner)) {
                        out.push(Violation::new(
                            format!("{}/alias/{}/marker={}", ctx.l(), tc, if rust_opt { "missing" } else { "extra" }),
                            format!("{}: alias `{}` = `{}` came out as `{}` (optional marker found: {})", ctx.lang.name(), s.owner, s.rust.rust(), s.obs.show(), found),
                        ));
                    }
                }
            }
            _ => {}
        }
    }
    out
}
fn found_lookup_failed(_ctx: &Ctx, _owner: &str) -> bool {
    false
}
fn payload_optional(ctx: &Ctx, owner: &str) -> Option<bool> {
    let (en, vn) = owner.split_once("::")?;
    let ii = ctx.items.iter().position(|i| i.name == en)?;
    let d = ctx.decl_of(ii)?;
    if let Kind::Enum { variants, .. } = &ctx.items[ii].kind {
        let pos = variants.iter().filter(|v| !v.skipped()).position(|v| v.name == vn)?;
        return d.cases.get(pos).map(|c| c.payload_optional);
    }
    None
}
fn c04_nontrivial(c: &ProgCase) -> bool {
    let mut nt = false;
    for (_, vi, fs, _, _) in containers(&c.items) {
        for f in fs {
            if f.default != Dflt::None || vi.is_some() || ty_class(&f.ty) != "T" && ty_class(&f.ty) != "Opt" {
                nt = true;
            }
        }
    }
    nt
}
fn c04_cfgs() -> BoxedStrategy<Cfg> {
    (cfg_strategy(), any::<bool>()).prop_map(|(mut c, nps)| { c.go_no_pointer_slice = nps; c }).boxed()
}
pub fn c04() -> FactCheck {
    FactCheck { name: "c04-optional", gen: c04_gen, langs: &ALL_LANGS, oracle: c04_oracle, nontrivial: c04_nontrivial, labels: no_labels, cfgs: c04_cfgs, exec_python: false, post: c04_post }
}

// =============================================================================================== runners

pub fn run_check(run: &Run, fc: &FactCheck, rule: &str, assumptions: &[&str], quick: u32, thorough: u32) {
    ts::install_panic_hook();
    run.set_rule(rule);
    for a in assumptions {
        run.assume(a);
    }
    replay_regress(run, fc);
    search(run, fc, run.tier.pick(quick, thorough));
    // the same oracle on output produced by the real binary
    if crate::cli::bin_available() {
        let via = crate::factcheck::ViaCli::new(fc);
        replay_regress(run, &via);
        search(run, &via, run.tier.pick((quick / 12).max(150), (thorough / 25).max(1500)));
        run.assume("a sub-family of the cases is generated by the real typeshare binary (single-file mode, settings through -c typeshare.toml) and judged by the same oracle");
    } else {
        run.extra("cli_family", serde_json::json!("not run: typeshare binary not built"));
    }
    // coverage floor: the observers must have read the output in the vast majority of cases
    let mut observed = 0;
    let mut unobs = 0;
    for l in fc.langs {
        observed += run.label_count(&format!("observed/{}", l.short()));
    }
    let labels_unobs: u64 = ALL_LANGS.iter().map(|l| run.label_count(&format!("unobservable-total/{}", l.short()))).sum();
    unobs += labels_unobs;
    run.extra("observed_outputs", serde_json::json!(observed));
    if observed == 0 {
        run.inconclusive("no generated output could be observed");
    }
    let _ = unobs;
}
