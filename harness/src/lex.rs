//! One tokeniser core for TypeScript, Kotlin, Swift, Scala and Go (Python is tokenised by CPython).
//! It implements the *languages'* lexical rules (comments incl. nesting, string forms, escaped identifiers),
//! not typeshare's formatting.
use crate::ts::Lang;

#[derive(Clone, Copy, Debug, PartialEq, Eq)]
pub enum TokKind {
    Ident,
    Number,
    Str,
    Char,
    Regex,
    Punct,
    LineComment,
    BlockComment,
}

#[derive(Clone, Debug)]
pub struct Tok {
    pub kind: TokKind,
    /// identifier name (without back-ticks), unescaped string value, or the punctuation character(s)
    pub text: String,
    pub start: usize,
    pub end: usize,
    pub line: usize,
    /// a line break occurs between the previous significant token and this one
    pub nl_before: bool,
    /// identifier was written in back-ticks
    pub escaped: bool,
}
impl Tok {
    pub fn is_comment(&self) -> bool {
        matches!(self.kind, TokKind::LineComment | TokKind::BlockComment)
    }
    pub fn is_p(&self, p: &str) -> bool {
        self.kind == TokKind::Punct && self.text == p
    }
    pub fn is_id(&self, s: &str) -> bool {
        self.kind == TokKind::Ident && !self.escaped && self.text == s
    }
}

#[derive(Clone, Debug)]
pub struct LexError {
    pub what: String,
    pub pos: usize,
    pub line: usize,
}

struct Rules {
    nested_block_comments: bool,
    single_quote_string: bool, // TS: '...' is a string; others: char literal
    backtick: Backtick,
    triple_quote: bool,
    dollar_ident: bool,
    regex: bool,
    /// characters besides LF that end a `//` comment (language specifications: JS LineTerminator; Swift / Kotlin / Scala line breaks)
    line_comment_ends: &'static [char],
}
#[derive(PartialEq)]
enum Backtick {
    Template,  // TS
    RawString, // Go
    Ident,     // Kotlin, Swift, Scala
}

fn rules(lang: Lang) -> Rules {
    match lang {
        Lang::TypeScript => Rules { nested_block_comments: false, single_quote_string: true, backtick: Backtick::Template, triple_quote: false, dollar_ident: true, regex: true, line_comment_ends: &['\r', '\u{2028}', '\u{2029}'] },
        Lang::Kotlin => Rules { nested_block_comments: true, single_quote_string: false, backtick: Backtick::Ident, triple_quote: true, dollar_ident: false, regex: false, line_comment_ends: &['\r'] },
        Lang::Swift => Rules { nested_block_comments: true, single_quote_string: false, backtick: Backtick::Ident, triple_quote: true, dollar_ident: false, regex: false, line_comment_ends: &['\r'] },
        Lang::Scala => Rules { nested_block_comments: true, single_quote_string: false, backtick: Backtick::Ident, triple_quote: true, dollar_ident: true, regex: false, line_comment_ends: &['\r'] },
        Lang::Go => Rules { nested_block_comments: false, single_quote_string: false, backtick: Backtick::RawString, triple_quote: false, dollar_ident: false, regex: false, line_comment_ends: &[] },
        Lang::Python => panic!("python is tokenised by CPython"),
    }
}

fn is_id_start(c: char, r: &Rules) -> bool {
    c == '_' || c.is_alphabetic() || (r.dollar_ident && c == '$')
}
fn is_id_cont(c: char, r: &Rules) -> bool {
    c == '_' || c.is_alphanumeric() || (r.dollar_ident && c == '$')
}

pub fn lex(lang: Lang, src: &str) -> Result<Vec<Tok>, LexError> {
    let r = rules(lang);
    let b: Vec<(usize, char)> = src.char_indices().collect();
    let n = b.len();
    let at = |i: usize| -> char { if i < n { b[i].1 } else { '\0' } };
    let off = |i: usize| -> usize { if i < n { b[i].0 } else { src.len() } };
    let mut toks: Vec<Tok> = vec![];
    let mut i = 0usize;
    let mut line = 1usize;
    let mut nl = false;
    while i < n {
        let c = at(i);
        if c == '\n' {
            line += 1;
            nl = true;
            i += 1;
            continue;
        }
        if c.is_whitespace() {
            i += 1;
            continue;
        }
        let start = i;
        let start_line = line;
        // comments
        if c == '/' && at(i + 1) == '/' {
            while i < n && at(i) != '\n' && !r.line_comment_ends.contains(&at(i)) {
                i += 1;
            }
            toks.push(Tok { kind: TokKind::LineComment, text: src[off(start)..off(i)].to_string(), start: off(start), end: off(i), line: start_line, nl_before: nl, escaped: false });
            continue;
        }
        if c == '/' && at(i + 1) == '*' {
            let mut depth = 1;
            i += 2;
            loop {
                if i >= n {
                    return Err(LexError { what: "unclosed block comment".into(), pos: off(start), line: start_line });
                }
                if at(i) == '\n' {
                    line += 1;
                }
                if at(i) == '*' && at(i + 1) == '/' {
                    depth -= 1;
                    i += 2;
                    if depth == 0 {
                        break;
                    }
                    continue;
                }
                if r.nested_block_comments && at(i) == '/' && at(i + 1) == '*' {
                    depth += 1;
                    i += 2;
                    continue;
                }
                i += 1;
            }
            toks.push(Tok { kind: TokKind::BlockComment, text: src[off(start)..off(i)].to_string(), start: off(start), end: off(i), line: start_line, nl_before: nl, escaped: false });
            continue;
        }
        // strings
        if c == '"' {
            if r.triple_quote && at(i + 1) == '"' && at(i + 2) == '"' {
                i += 3;
                let mut val = String::new();
                loop {
                    if i >= n {
                        return Err(LexError { what: "unclosed triple-quoted string".into(), pos: off(start), line: start_line });
                    }
                    if at(i) == '"' && at(i + 1) == '"' && at(i + 2) == '"' {
                        i += 3;
                        while at(i) == '"' {
                            val.push('"');
                            i += 1;
                        }
                        break;
                    }
                    if at(i) == '\n' {
                        line += 1;
                    }
                    val.push(at(i));
                    i += 1;
                }
                toks.push(Tok { kind: TokKind::Str, text: val, start: off(start), end: off(i), line: start_line, nl_before: nl, escaped: false });
                nl = false;
                continue;
            }
            let (val, ni) = quoted(&b, i, '"', start_line, off(start))?;
            i = ni;
            toks.push(Tok { kind: TokKind::Str, text: val, start: off(start), end: off(i), line: start_line, nl_before: nl, escaped: false });
            nl = false;
            continue;
        }
        if c == '\'' {
            if r.single_quote_string {
                let (val, ni) = quoted(&b, i, '\'', start_line, off(start))?;
                i = ni;
                toks.push(Tok { kind: TokKind::Str, text: val, start: off(start), end: off(i), line: start_line, nl_before: nl, escaped: false });
            } else {
                // char literal: 'x' or '\..'
                let (val, ni) = quoted(&b, i, '\'', start_line, off(start))?;
                i = ni;
                toks.push(Tok { kind: TokKind::Char, text: val, start: off(start), end: off(i), line: start_line, nl_before: nl, escaped: false });
            }
            nl = false;
            continue;
        }
        if c == '`' {
            match r.backtick {
                Backtick::Ident => {
                    let mut j = i + 1;
                    while j < n && at(j) != '`' && at(j) != '\n' {
                        j += 1;
                    }
                    if at(j) != '`' || j == i + 1 {
                        return Err(LexError { what: "unclosed back-tick identifier".into(), pos: off(start), line: start_line });
                    }
                    let name: String = b[i + 1..j].iter().map(|x| x.1).collect();
                    i = j + 1;
                    toks.push(Tok { kind: TokKind::Ident, text: name, start: off(start), end: off(i), line: start_line, nl_before: nl, escaped: true });
                }
                Backtick::RawString | Backtick::Template => {
                    let mut j = i + 1;
                    let mut val = String::new();
                    loop {
                        if j >= n {
                            return Err(LexError { what: "unclosed back-tick string".into(), pos: off(start), line: start_line });
                        }
                        if at(j) == '`' {
                            break;
                        }
                        if r.backtick == Backtick::Template && at(j) == '\\' {
                            val.push(at(j));
                            j += 1;
                        }
                        if at(j) == '\n' {
                            line += 1;
                        }
                        val.push(at(j));
                        j += 1;
                    }
                    i = j + 1;
                    toks.push(Tok { kind: TokKind::Str, text: val, start: off(start), end: off(i), line: start_line, nl_before: nl, escaped: true });
                }
            }
            nl = false;
            continue;
        }
        if is_id_start(c, &r) {
            let mut j = i;
            while j < n && is_id_cont(at(j), &r) {
                j += 1;
            }
            let name: String = b[i..j].iter().map(|x| x.1).collect();
            i = j;
            toks.push(Tok { kind: TokKind::Ident, text: name, start: off(start), end: off(i), line: start_line, nl_before: nl, escaped: false });
            nl = false;
            continue;
        }
        if c.is_ascii_digit() {
            let mut j = i;
            while j < n && (at(j).is_ascii_alphanumeric() || at(j) == '_' || (at(j) == '.' && at(j + 1).is_ascii_digit())) {
                j += 1;
            }
            let t: String = b[i..j].iter().map(|x| x.1).collect();
            i = j;
            toks.push(Tok { kind: TokKind::Number, text: t, start: off(start), end: off(i), line: start_line, nl_before: nl, escaped: false });
            nl = false;
            continue;
        }
        if r.regex && c == '/' {
            // regex literal iff a value is expected here
            let prev = toks.iter().rev().find(|t| !t.is_comment());
            let value_expected = match prev {
                None => true,
                Some(t) => match t.kind {
                    TokKind::Punct => !matches!(t.text.as_str(), ")" | "]" | "}"),
                    TokKind::Ident => matches!(t.text.as_str(), "return" | "typeof" | "case" | "in" | "of"),
                    _ => false,
                },
            };
            if value_expected {
                let mut j = i + 1;
                let mut in_class = false;
                loop {
                    if j >= n || at(j) == '\n' {
                        return Err(LexError { what: "unclosed regex literal".into(), pos: off(start), line: start_line });
                    }
                    let ch = at(j);
                    if ch == '\\' {
                        j += 2;
                        continue;
                    }
                    if ch == '[' {
                        in_class = true;
                    } else if ch == ']' {
                        in_class = false;
                    } else if ch == '/' && !in_class {
                        break;
                    }
                    j += 1;
                }
                j += 1;
                while j < n && at(j).is_ascii_alphabetic() {
                    j += 1;
                }
                i = j;
                toks.push(Tok { kind: TokKind::Regex, text: src[off(start)..off(i)].to_string(), start: off(start), end: off(i), line: start_line, nl_before: nl, escaped: false });
                nl = false;
                continue;
            }
        }
        // punctuation: a few multi-char operators that matter, otherwise single chars
        let two: String = [c, at(i + 1)].iter().collect();
        let three: String = [c, at(i + 1), at(i + 2)].iter().collect();
        let t = if ["===", "!==", "..."].contains(&three.as_str()) {
            three
        } else if ["=>", "->", "==", "!=", "&&", "||", "<=", ">=", ":=", "<-", "?.", "::"].contains(&two.as_str()) {
            two
        } else {
            c.to_string()
        };
        i += t.chars().count();
        toks.push(Tok { kind: TokKind::Punct, text: t, start: off(start), end: off(i), line: start_line, nl_before: nl, escaped: false });
        nl = false;
    }
    Ok(toks)
}

/// lex a quoted literal starting at b[i] == q; returns (unescaped value, index after closing quote)
fn quoted(b: &[(usize, char)], i: usize, q: char, line: usize, pos: usize) -> Result<(String, usize), LexError> {
    let n = b.len();
    let mut j = i + 1;
    let mut val = String::new();
    loop {
        if j >= n || b[j].1 == '\n' {
            return Err(LexError { what: format!("unclosed {q} literal"), pos, line });
        }
        let ch = b[j].1;
        if ch == q {
            return Ok((val, j + 1));
        }
        if ch == '\\' {
            if j + 1 >= n || b[j + 1].1 == '\n' {
                return Err(LexError { what: format!("unclosed {q} literal (backslash at end of line)"), pos, line });
            }
            let e = b[j + 1].1;
            match e {
                'n' => val.push('\n'),
                't' => val.push('\t'),
                'r' => val.push('\r'),
                '0' => val.push('\0'),
                'u' => {
                    // \u{XXXX} or \uXXXX: keep verbatim, value not needed
                    val.push_str("\\u");
                }
                other => val.push(other),
            }
            j += 2;
            continue;
        }
        val.push(ch);
        j += 1;
    }
}

/// Bracket balance over significant tokens.
pub fn check_balance(toks: &[Tok]) -> Result<(), String> {
    let mut stack: Vec<(char, usize)> = vec![];
    for t in toks {
        if t.kind != TokKind::Punct {
            continue;
        }
        match t.text.as_str() {
            "(" | "[" | "{" => stack.push((t.text.chars().next().unwrap(), t.line)),
            ")" | "]" | "}" => {
                let want = match t.text.as_str() {
                    ")" => '(',
                    "]" => '[',
                    _ => '{',
                };
                match stack.pop() {
                    Some((o, _)) if o == want => {}
                    Some((o, l)) => return Err(format!("`{}` at line {} closes `{}` opened at line {}", t.text, t.line, o, l)),
                    None => return Err(format!("unmatched `{}` at line {}", t.text, t.line)),
                }
            }
            _ => {}
        }
    }
    if let Some((o, l)) = stack.pop() {
        return Err(format!("`{o}` opened at line {l} is never closed"));
    }
    Ok(())
}

/// significant (non-comment) tokens
pub fn significant(toks: &[Tok]) -> Vec<Tok> {
    toks.iter().filter(|t| !t.is_comment()).cloned().collect()
}
