//! C19 — #[typeshare] is transparent to the Rust compiler and to serde (twin programs compiled with rustc).
use crate::common::*;
use crate::gen::{self, GenCfg};
use crate::model::*;
use serde::{Deserialize, Serialize};
use serde_json::json;
use std::path::{Path, PathBuf};
use std::process::Command;

#[derive(Clone, Debug, Serialize, Deserialize)]
pub struct Twin {
    pub items: Vec<Item>,
    pub template: usize,
    /// plant a compile error unrelated to typeshare in both twins
    pub planted_error: bool,
}

/// hand-written items covering shapes the model does not print: tuple fields, several helper attributes on one member,
/// lifetimes / const generics / where clauses, unions, cfg'd members, aliases and consts
const TEMPLATES: &[(&str, &[(&str, &str)])] = &[
    (
        r#"#[typeshare]
#[derive(Serialize, Deserialize, Dump)]
pub struct TplTuple(#[typeshare(serialized_as = "String")] pub u32);

#[typeshare]
#[derive(Serialize, Deserialize, Dump)]
#[serde(tag = "t", content = "c")]
pub enum TplEnum {
    #[typeshare(skip)]
    A,
    B(#[typeshare(serialized_as = "String")] u8),
    C {
        #[typeshare(skip)]
        #[serde(rename = "x")]
        #[typeshare(typescript(readonly))]
        f: u8,
        #[typeshare(swift(type = "Int"))]
        #[typeshare(kotlin(type = "Int"))]
        g: Option<u8>,
    },
}
"#,
        &[("TplTuple", "5"), ("TplEnum", r#"{"t":"B","c":7}"#), ("TplEnum", r#"{"t":"C","c":{"x":1,"g":null}}"#), ("TplEnum", r#"{"t":"A"}"#)],
    ),
    (
        r#"#[typeshare]
#[derive(Dump)]
pub struct TplGen<'a, T: Clone + 'a, const N: usize>
where
    T: Default,
{
    #[typeshare(skip)]
    pub a: &'a T,
    pub b: [u8; N],
}

#[typeshare]
#[repr(C)]
#[derive(Clone, Copy, Dump)]
pub union TplUnion {
    #[typeshare(skip)]
    pub a: u32,
    #[typeshare(serialized_as = "String")]
    #[doc = "second"]
    #[typeshare(typescript(readonly))]
    pub b: [u8; 4],
}

#[typeshare]
pub type TplAlias = Vec<u8>;

#[typeshare]
pub const TPL_CONST: u32 = 5;

#[typeshare(swift = "Equatable", redacted)]
#[derive(Serialize, Deserialize, Dump)]
#[cfg(all())]
pub struct TplCfg {
    #[cfg(any())]
    pub gone: NoSuchType,
    #[cfg(all())]
    #[typeshare(skip)]
    pub here: u8,
}
"#,
        &[("TplCfg", r#"{"here":1}"#)],
    ),
    (
        r#"#[typeshare(serialized_as = "String")]
#[derive(Serialize, Deserialize, Dump)]
#[serde(rename_all = "camelCase", deny_unknown_fields)]
pub struct TplOpaque {
    #[serde(default)]
    #[typeshare(skip)]
    pub first_field: Vec<u8>,
    /// documented
    #[typeshare(serialized_as = "Vec<String>")]
    #[serde(skip_serializing_if = "Option::is_none", default)]
    pub second_field: Option<u16>,
}

#[typeshare]
#[derive(Serialize, Deserialize, Dump, Clone, Copy, PartialEq, Eq, Hash)]
#[serde(rename_all = "kebab-case")]
pub enum TplUnit {
    #[typeshare(skip)]
    #[serde(rename = "first")]
    FirstOne,
    #[serde(alias = "2nd")]
    #[typeshare(skip)]
    SecondOne,
}
"#,
        &[("TplOpaque", r#"{"firstField":[1,2],"secondField":3}"#), ("TplOpaque", r#"{}"#), ("TplUnit", r#""first""#), ("TplUnit", r#""2nd""#)],
    ),
    // attributes applied through cfg_attr (predicates that hold without any feature, some of them mentioning the word
    // typeshare): they belong to serde / the compiler, the macro must leave them alone
    (
        r#"#[typeshare]
#[derive(Serialize, Deserialize, Dump)]
#[cfg_attr(all(not(feature = "nope"), not(feature = "no_typeshare")), serde(rename_all = "camelCase"))]
pub struct TplCfgAttr {
    #[cfg_attr(all(not(feature = "wasm_off"), not(feature = "typeshare_off")), serde(rename = "accountId"))]
    pub account_id: u32,
    #[cfg_attr(not(feature = "typeshare_off"), serde(rename = "simple-predicate"))]
    pub second_one: u8,
    #[cfg_attr(any(feature = "never", not(feature = "never")), serde(skip_serializing_if = "Option::is_none", default))]
    #[typeshare(skip)]
    pub maybe_there: Option<u8>,
    #[cfg_attr(feature = "never", serde(rename = "not-applied"))]
    pub plain_name: bool,
}

#[typeshare]
#[derive(Serialize, Deserialize, Dump)]
#[serde(tag = "kind", content = "body")]
pub enum TplCfgAttrEnum {
    #[cfg_attr(all(not(feature = "a"), not(feature = "typeshare")), serde(rename = "renamed-variant"))]
    First,
    #[typeshare(skip)]
    #[cfg_attr(not(feature = "a"), serde(rename = "second"))]
    Second(u8),
    Third {
        #[cfg_attr(all(not(feature = "b"), not(feature = "x_typeshare_y")), serde(rename = "innerKey"))]
        #[typeshare(typescript(readonly))]
        inner_key: String,
    },
}
"#,
        &[
            ("TplCfgAttr", r#"{"accountId":7,"simple-predicate":1,"maybeThere":2,"plainName":true}"#),
            ("TplCfgAttr", r#"{"accountId":7,"simple-predicate":1,"plainName":false}"#),
            ("TplCfgAttrEnum", r#"{"kind":"renamed-variant"}"#),
            ("TplCfgAttrEnum", r#"{"kind":"second","body":3}"#),
            ("TplCfgAttrEnum", r#"{"kind":"Third","body":{"innerKey":"v"}}"#),
        ],
    ),
];

/// remove every `#[typeshare ...]` / `#[typeshare::typeshare]` attribute from source text (bracket matching)
pub fn strip_typeshare(src: &str) -> String {
    let b: Vec<char> = src.chars().collect();
    let mut out = String::new();
    let mut i = 0;
    while i < b.len() {
        if b[i] == '#' && i + 1 < b.len() && b[i + 1] == '[' {
            let rest: String = b[i + 2..(i + 14).min(b.len())].iter().collect();
            if rest.starts_with("typeshare") {
                // find the matching ]
                let mut depth = 0;
                let mut j = i + 1;
                let mut in_str = false;
                while j < b.len() {
                    let c = b[j];
                    if in_str {
                        if c == '\\' {
                            j += 1;
                        } else if c == '"' {
                            in_str = false;
                        }
                    } else if c == '"' {
                        in_str = true;
                    } else if c == '[' {
                        depth += 1;
                    } else if c == ']' {
                        depth -= 1;
                        if depth == 0 {
                            break;
                        }
                    }
                    j += 1;
                }
                i = j + 1;
                // swallow one following newline + indentation if the attribute stood on its own line
                if out.ends_with(|c: char| c == ' ' || c == '\n') || out.is_empty() {
                    let mut k = i;
                    while k < b.len() && b[k] == ' ' {
                        k += 1;
                    }
                    if k < b.len() && b[k] == '\n' {
                        i = k + 1;
                        while out.ends_with(' ') {
                            out.pop();
                        }
                    }
                }
                continue;
            }
        }
        out.push(b[i]);
        i += 1;
    }
    out
}

fn gen_cfg() -> GenCfg {
    let mut g = GenCfg::base();
    g.min_items = 3;
    g.max_items = 7;
    g.kinds = [6, 2, 1, 3, 4, 1, 1];
    g.generics = false;
    g.wrappers = false;
    g.unit_type = true;
    g.self_refs = false;
    g.dag = true;
    g.defaults = false;
    g.skips = true; // turned into typeshare(skip) only (see below)
    g.decoys = false;
    g.decorators = true;
    g.benign_docs = true;
    g.readonly = true;
    g.item_renames = true;
    g.ty_depth = 3;
    g
}

/// make the generated items a compilable Rust program (the generators aim at what syn accepts, rustc wants more)
fn make_compilable(mut items: Vec<Item>) -> Vec<Item> {
    fn fix_ty(t: &mut Ty) {
        match t {
            Ty::Prim(Prim::Str) => *t = Ty::Prim(Prim::String),
            Ty::Slice(x) => {
                fix_ty(x);
                let inner = std::mem::replace(x.as_mut(), Ty::Prim(Prim::Bool));
                *t = Ty::Vec(Box::new(inner));
            }
            Ty::Vec(x) | Ty::Array(x, _) | Ty::Opt(x) | Ty::Wrap(_, x) | Ty::Ref(x) | Ty::Qual(_, x) => fix_ty(x),
            Ty::Map(k, v) => {
                // keys: String or integers only
                if !matches!(k.as_ref(), Ty::Prim(Prim::String) | Ty::Prim(Prim::I32) | Ty::Prim(Prim::U32) | Ty::Prim(Prim::U8)) {
                    **k = Ty::Prim(Prim::String);
                }
                fix_ty(v);
            }
            Ty::User { args, .. } => args.iter_mut().for_each(fix_ty),
            _ => {}
        }
    }
    fn fix_field(f: &mut Field) {
        fix_ty(&mut f.ty);
        if f.skip == Skip::Serde {
            f.skip = Skip::Typeshare; // serde(skip) would demand Default on the field type
        }
    }
    for it in items.iter_mut() {
        match &mut it.kind {
            Kind::Struct { shape: Shape::Named(fs), .. } => fs.iter_mut().for_each(fix_field),
            Kind::Struct { shape: Shape::Newtype(t), .. } => fix_ty(t),
            Kind::Enum { variants, .. } => {
                for v in variants.iter_mut() {
                    if v.skip == Skip::Serde {
                        v.skip = Skip::Typeshare;
                    }
                    match &mut v.payload {
                        Payload::Newtype(t) => fix_ty(t),
                        Payload::Struct { fields, .. } => fields.iter_mut().for_each(fix_field),
                        _ => {}
                    }
                }
            }
            Kind::Alias { ty } => {
                fix_ty(ty);
                it.serde_rename = None; // serde attributes are only legal next to a serde derive
            }
            Kind::Const { ty, .. } => {
                *ty = Ty::Prim(Prim::U32);
                it.serde_rename = None;
            }
            _ => {}
        }
    }
    items
}

/// a JSON sample of a type, by serde's data model
fn sample(items: &[Item], t: &Ty, depth: usize) -> String {
    let t = t.peel();
    match t {
        Ty::Prim(p) => match p {
            Prim::Bool => "true".into(),
            Prim::Char => "\"c\"".into(),
            Prim::String | Prim::Str => "\"s\"".into(),
            Prim::F32 | Prim::F64 => "1.5".into(),
            Prim::Unit => "null".into(),
            _ => "7".into(),
        },
        Ty::Vec(x) => format!("[{}]", sample(items, x, depth + 1)),
        Ty::Array(x, n) => format!("[{}]", (0..*n).map(|_| sample(items, x, depth + 1)).collect::<Vec<_>>().join(",")),
        Ty::Opt(x) => {
            if depth > 4 { "null".into() } else { sample(items, x, depth + 1) }
        }
        Ty::Map(k, v) => {
            let key = match k.peel() {
                Ty::Prim(Prim::String) => "\"k\"".to_string(),
                _ => "\"7\"".to_string(),
            };
            format!("{{{}:{}}}", key, sample(items, v, depth + 1))
        }
        Ty::User { name, .. } => match items.iter().find(|i| i.name == *name) {
            Some(it) => sample_item(items, it, depth + 1),
            None => "null".into(),
        },
        _ => "null".into(),
    }
}
fn sample_fields(items: &[Item], fs: &[Field], rule: &Option<String>, depth: usize) -> String {
    let parts: Vec<String> = fs
        .iter()
        .filter(|f| f.skip != Skip::Serde)
        .map(|f| format!("{:?}:{}", crate::prog::serde_field_key(f, rule).unwrap_or_else(|| f.name.clone()), sample(items, &f.ty, depth)))
        .collect();
    format!("{{{}}}", parts.join(","))
}
fn sample_item(items: &[Item], it: &Item, depth: usize) -> String {
    match &it.kind {
        Kind::Struct { shape: Shape::Named(fs), rename_all } => sample_fields(items, fs, rename_all, depth),
        Kind::Struct { shape: Shape::Newtype(t), .. } => sample(items, t, depth),
        Kind::Struct { shape: Shape::Unit, .. } => "null".into(),
        Kind::Struct { .. } => "null".into(),
        Kind::Enum { variants, rename_all, tag, content } => {
            let Some(v) = variants.iter().find(|v| v.skip != Skip::Serde) else { return "null".into() };
            let wire = crate::prog::serde_variant_wire(v, rename_all).unwrap_or_else(|| v.name.clone());
            match (tag, content) {
                (Some(t), Some(c)) => match &v.payload {
                    Payload::Unit => format!("{{{:?}:{:?}}}", t, wire),
                    Payload::Newtype(ty) => format!("{{{:?}:{:?},{:?}:{}}}", t, wire, c, sample(items, ty, depth)),
                    Payload::Struct { fields, rename_all } => format!("{{{:?}:{:?},{:?}:{}}}", t, wire, c, sample_fields(items, fields, rename_all, depth)),
                    _ => "null".into(),
                },
                _ => format!("{:?}", wire),
            }
        }
        Kind::Alias { ty } => sample(items, ty, depth),
        Kind::Const { .. } => "null".into(),
    }
}

const PRELUDE: &str = "#![allow(dead_code, unused_imports, non_camel_case_types, non_snake_case, clippy::all)]\nuse probe_derive::Dump;\nuse serde::{Deserialize, Serialize};\nuse std::collections::HashMap;\nuse typeshare::{typeshare, I54, U53};\n\n";

/// source of twin `a` (annotated); derive(Dump) is added to every struct/enum derive list
fn twin_a_src(t: &Twin) -> String {
    let mut s = String::from(PRELUDE);
    let body = items_src(&t.items).replace("#[derive(Serialize, Deserialize)]", "#[derive(Serialize, Deserialize, Dump)]");
    s.push_str(&body);
    s.push_str(TEMPLATES[t.template % TEMPLATES.len()].0);
    if t.planted_error {
        s.push_str("\npub struct PlantedError { pub f: ThisTypeDoesNotExist, pub dup: u8, pub dup: u8 }\n");
    }
    s
}

fn module_runner(idx: usize, t: &Twin) -> String {
    // comparisons for every serde-derived item of the twin
    let mut s = format!("pub mod a;\npub mod b;\npub fn run() {{\n    let m = \"p{idx}\";\n");
    for it in &t.items {
        let serde_item = matches!(it.kind, Kind::Struct { .. } | Kind::Enum { .. });
        if !serde_item {
            continue;
        }
        let js = sample_item(&t.items, it, 0);
        s.push_str(&format!("    crate::json_check::<a::{n}, b::{n}>(m, \"{n}\", r####\"{js}\"####);\n", n = it.name));
        // token transparency: only when #[typeshare] stands above the derive (the derive then sees the macro's output)
        if it.annotated && (it.layout >> 5) % 3 == 0 {
            s.push_str(&format!("    crate::dump_check(m, \"{n}\", a::DUMP_{n}, b::DUMP_{n});\n", n = it.name));
        }
    }
    for (n, js) in TEMPLATES[t.template % TEMPLATES.len()].1 {
        s.push_str(&format!("    crate::json_check::<a::{n}, b::{n}>(m, \"{n}\", r####\"{js}\"####);\n"));
    }
    match t.template % TEMPLATES.len() {
        0 => s.push_str("    crate::dump_check(m, \"TplTuple\", a::DUMP_TplTuple, b::DUMP_TplTuple);\n    crate::dump_check(m, \"TplEnum\", a::DUMP_TplEnum, b::DUMP_TplEnum);\n"),
        1 => s.push_str("    crate::dump_check(m, \"TplGen\", a::DUMP_TplGen, b::DUMP_TplGen);\n    crate::dump_check(m, \"TplUnion\", a::DUMP_TplUnion, b::DUMP_TplUnion);\n    crate::dump_check(m, \"TplCfg\", a::DUMP_TplCfg, b::DUMP_TplCfg);\n    crate::layout_check(m, \"TplUnion\", std::mem::size_of::<a::TplUnion>(), std::mem::align_of::<a::TplUnion>(), std::mem::size_of::<b::TplUnion>(), std::mem::align_of::<b::TplUnion>());\n    if a::TPL_CONST != b::TPL_CONST { println!(\"RESULT {m} TPL_CONST const-differs\"); }\n"),
        2 => s.push_str("    crate::dump_check(m, \"TplOpaque\", a::DUMP_TplOpaque, b::DUMP_TplOpaque);\n    crate::dump_check(m, \"TplUnit\", a::DUMP_TplUnit, b::DUMP_TplUnit);\n"),
        _ => s.push_str("    crate::dump_check(m, \"TplCfgAttr\", a::DUMP_TplCfgAttr, b::DUMP_TplCfgAttr);\n    crate::dump_check(m, \"TplCfgAttrEnum\", a::DUMP_TplCfgAttrEnum, b::DUMP_TplCfgAttrEnum);\n"),
    }
    s.push_str("    println!(\"DONE {m}\");\n}\n");
    s
}

const MAIN_HELPERS: &str = r#"
pub fn json_check<A: serde::Serialize + serde::de::DeserializeOwned, B: serde::Serialize + serde::de::DeserializeOwned>(m: &str, n: &str, j: &str) {
    let ra = serde_json::from_str::<A>(j);
    let rb = serde_json::from_str::<B>(j);
    match (ra, rb) {
        (Ok(a), Ok(b)) => {
            let sa = serde_json::to_string(&a).unwrap_or_default();
            let sb = serde_json::to_string(&b).unwrap_or_default();
            if sa != sb {
                println!("RESULT {m} {n} json-differs a={sa} b={sb}");
            } else if serde_json::from_str::<B>(&sa).is_err() || serde_json::from_str::<A>(&sb).is_err() {
                println!("RESULT {m} {n} cross-deserialize-fails {sa}");
            } else {
                println!("OK {m} {n}");
            }
        }
        (Err(_), Err(_)) => println!("SAMPLE-REJECTED {m} {n}"),
        (Ok(_), Err(e)) => println!("RESULT {m} {n} deserialize-differs annotated-accepts stripped-rejects {e}"),
        (Err(e), Ok(_)) => println!("RESULT {m} {n} deserialize-differs annotated-rejects stripped-accepts {e}"),
    }
}
pub fn dump_check(m: &str, n: &str, a: &str, b: &str) {
    if a != b {
        println!("RESULT {m} {n} tokens-differ\n  annotated: {a}\n  stripped:  {b}");
    } else {
        println!("OKTOK {m} {n}");
    }
}
pub fn layout_check(m: &str, n: &str, sa: usize, aa: usize, sb: usize, ab: usize) {
    if (sa, aa) != (sb, ab) {
        println!("RESULT {m} {n} layout-differs {sa}/{aa} vs {sb}/{ab}");
    }
}
"#;

fn write_batch(dir: &Path, twins: &[(usize, &Twin)]) {
    let _ = std::fs::remove_dir_all(dir.join("src"));
    std::fs::create_dir_all(dir.join("src")).unwrap();
    std::fs::write(
        dir.join("Cargo.toml"),
        "[package]\nname = \"c19batch\"\nversion = \"0.1.0\"\nedition = \"2021\"\npublish = false\n\n[dependencies]\ntypeshare = { path = \"/repo/lib\", default-features = false }\nserde = { version = \"1\", features = [\"derive\"] }\nserde_json = \"1\"\nprobe_derive = { path = \"/verif/harness/probe_derive\" }\n\n[profile.dev]\ndebug = 0\nincremental = false\n\n[workspace]\n",
    )
    .unwrap();
    if !dir.join("Cargo.lock").exists() {
        let _ = std::fs::copy("/repo/Cargo.lock", dir.join("Cargo.lock"));
    }
    let mut main = String::from("#![allow(dead_code, unused_imports)]\n");
    for (i, _) in twins {
        main.push_str(&format!("mod p{i};\n"));
    }
    main.push_str(MAIN_HELPERS);
    main.push_str("fn main() {\n");
    for (i, _) in twins {
        main.push_str(&format!("    p{i}::run();\n"));
    }
    main.push_str("}\n");
    std::fs::write(dir.join("src/main.rs"), main).unwrap();
    for (i, t) in twins {
        let md = dir.join(format!("src/p{i}"));
        std::fs::create_dir_all(&md).unwrap();
        let a = twin_a_src(t);
        std::fs::write(md.join("b.rs"), strip_typeshare(&a)).unwrap();
        std::fs::write(md.join("a.rs"), a).unwrap();
        std::fs::write(md.join("mod.rs"), module_runner(*i, t)).unwrap();
    }
}

/// cargo build; returns (success, set of (module index, side) with compile errors, stderr)
fn build(dir: &Path) -> (bool, Vec<(usize, char)>, String) {
    let out = Command::new("cargo")
        .args(["build", "--offline", "--message-format=short", "--target-dir", "/verif/target/c19"])
        .current_dir(dir)
        .env("CARGO_NET_OFFLINE", "true")
        .env("CARGO_TERM_COLOR", "never")
        .output();
    let Ok(out) = out else { return (false, vec![], "cargo could not be started".into()) };
    let stderr = String::from_utf8_lossy(&out.stderr).into_owned();
    let mut bad: Vec<(usize, char)> = vec![];
    for line in stderr.lines() {
        if !line.contains("error") {
            continue;
        }
        // src/p12/a.rs:34:5: error[E0412]: ...
        if let Some(pos) = line.find("src/p") {
            let rest = &line[pos + 5..];
            let num: String = rest.chars().take_while(|c| c.is_ascii_digit()).collect();
            if let Ok(i) = num.parse::<usize>() {
                let after = &rest[num.len()..];
                let side = if after.starts_with("/a.rs") { 'a' } else if after.starts_with("/b.rs") { 'b' } else { 'm' };
                if !bad.contains(&(i, side)) {
                    bad.push((i, side));
                }
            }
        }
    }
    (out.status.success(), bad, stderr)
}

fn twin_strategy() -> proptest::strategy::BoxedStrategy<Twin> {
    use proptest::prelude::*;
    (gen::program(&gen_cfg()), 0usize..TEMPLATES.len(), prop_oneof![9 => Just(false), 1 => Just(true)])
        .prop_map(|(items, template, planted_error)| Twin { items: make_compilable(items), template, planted_error })
        .boxed()
}

fn has_nested_helper(t: &Twin) -> bool {
    let src = twin_a_src(t);
    src.contains("#[typeshare(skip") || src.contains("#[typeshare(typescript") || src.contains("#[typeshare(serialized_as")
}

pub fn evaluate_batch(run: &Run, twins: &[Twin], dir: &Path, record: bool) -> Vec<Violation> {
    let mut out = vec![];
    let mut live: Vec<(usize, &Twin)> = twins.iter().enumerate().collect();
    let mut rounds = 0;
    loop {
        rounds += 1;
        write_batch(dir, &live);
        let (ok, bad, stderr) = build(dir);
        if ok {
            break;
        }
        if bad.is_empty() || rounds > 6 {
            run.inconclusive(&format!("batch crate does not build and no module could be blamed: {}", stderr.lines().filter(|l| l.contains("error")).take(3).collect::<Vec<_>>().join(" | ")));
            return out;
        }
        // judge the modules with errors
        let mut failing: Vec<usize> = bad.iter().map(|(i, _)| *i).collect();
        failing.sort();
        failing.dedup();
        for i in &failing {
            let a = bad.contains(&(*i, 'a'));
            let b = bad.contains(&(*i, 'b'));
            let t = &twins[*i];
            let first_err = stderr.lines().find(|l| l.contains(&format!("src/p{i}/")) && l.contains("error")).unwrap_or("").to_string();
            if a && b {
                if t.planted_error {
                    run.label("c19/both-twins-fail(planted error)");
                } else {
                    let code: String = first_err.split("error").nth(1).unwrap_or("").chars().take(60).collect();
                    run.label(&format!("c19/both-twins-fail(generator made an uncompilable program):{}", code.trim()));
                }
            } else if a {
                let v = Violation::new("compile/a-fails-b-compiles", format!("the annotated twin does not compile while the stripped twin does: {first_err}"));
                if record {
                    for v in run.triage(vec![v.clone()], true) {
                        run.record_violation("c19-twins", &v, serde_json::to_value(t).unwrap(), json!({"annotated": twin_a_src(t), "stripped": strip_typeshare(&twin_a_src(t))}));
                    }
                }
                out.push(v);
            } else if b {
                let v = Violation::new("compile/b-fails-a-compiles", format!("the stripped twin does not compile while the annotated twin does: {first_err}"));
                if record {
                    for v in run.triage(vec![v.clone()], true) {
                        run.record_violation("c19-twins", &v, serde_json::to_value(t).unwrap(), json!({"annotated": twin_a_src(t), "stripped": strip_typeshare(&twin_a_src(t))}));
                    }
                }
                out.push(v);
            } else {
                run.label("c19/error-in-runner-module(harness)");
            }
        }
        live.retain(|(i, _)| !failing.contains(i));
        if live.is_empty() {
            return out;
        }
    }
    // planted errors that compiled anyway would be a harness problem
    for (i, t) in &live {
        if t.planted_error {
            run.label(&format!("c19/planted-error-compiled?p{i}"));
        }
    }
    let bin = PathBuf::from("/verif/target/c19/debug/c19batch");
    let Ok(o) = Command::new(&bin).output() else {
        run.inconclusive("batch binary could not be run");
        return out;
    };
    let stdout = String::from_utf8_lossy(&o.stdout).into_owned();
    let lines: Vec<&str> = stdout.lines().collect();
    for (li, l) in lines.iter().enumerate() {
        if let Some(rest) = l.strip_prefix("RESULT ") {
            let mut parts = rest.splitn(4, ' ');
            let m = parts.next().unwrap_or("");
            let n = parts.next().unwrap_or("");
            let rel = parts.next().unwrap_or("");
            let more = parts.next().unwrap_or("");
            let idx: usize = m.trim_start_matches('p').parse().unwrap_or(0);
            let extra: String = lines[li + 1..].iter().take_while(|x| x.starts_with("  ")).cloned().collect::<Vec<_>>().join("\n");
            let kind = if n.starts_with("Tpl") || n.starts_with("TPL") { "template" } else { "generated" };
            let v = Violation::new(format!("behaviour/{rel}/{kind}"), format!("module {m}, type {n}: {rel} {more}\n{extra}"));
            if record {
                if let Some(t) = twins.get(idx) {
                    for v in run.triage(vec![v.clone()], true) {
                        run.record_violation("c19-twins", &v, serde_json::to_value(t).unwrap(), json!({"annotated": twin_a_src(t), "stripped": strip_typeshare(&twin_a_src(t))}));
                    }
                }
            }
            out.push(v);
        } else if l.starts_with("OK ") {
            run.label("c19/json-equal");
        } else if l.starts_with("OKTOK ") {
            run.label("c19/tokens-equal");
        } else if l.starts_with("SAMPLE-REJECTED") {
            run.label("c19/sample-rejected-by-both(harness sample)");
        }
    }
    if !o.status.success() {
        run.inconclusive(&format!("batch binary exited with {:?}", o.status.code()));
    }
    out
}

pub fn run(run: &Run) {
    run.set_rule("twin programs: 3-7 generated items (structs, newtypes, unit structs, unit and tagged enums, aliases, consts) with derive / serde attributes, doc comments, typeshare helpers (skip, typescript(readonly), decorators, redacted, serialized_as) merged or split into several attributes, the three relative orders of #[typeshare] / #[derive] / #[serde], plus one of three hand-written templates (tuple fields and several helper attributes on one member, lifetimes / const generics / where clauses, a union, cfg'd members, aliases, consts, serialized_as on a container); one twin in ten carries a compile error unrelated to typeshare in both versions. Each program is compiled twice by rustc in one batch crate against /repo/lib: annotated, and a stripped twin with every typeshare attribute removed textually. Oracle: (1) the twins compile or fail together; (2) a dependency-free derive placed below #[typeshare] dumps the item as the derive sees it: the token lists of the twins are identical; (3) for a JSON sample of every serde type: both twins accept it, re-serialise it identically and accept each other's output; union size/alignment equal. Non-trivial = the program has a nested typeshare helper attribute on a field / variant / tuple field / union field; distinct by program text.");
    run.assume("JSON samples are derived from the model by serde's data format; a sample both twins reject is counted as a harness sample problem, never as a violation");
    run.assume("token transparency is compared only where #[typeshare] stands above #[derive] (otherwise the derive runs first and legitimately sees the attribute)");
    let n = run.tier.pick(60, 800);
    let batch_size = 100;
    let twins: Vec<Twin> = sample_values(&twin_strategy(), fnv(&[&run.seed.to_le_bytes(), b"c19"]), n);
    let mut samples_done = 0;
    for (bi, chunk) in twins.chunks(batch_size).enumerate() {
        let dir = PathBuf::from(format!("{VERIF}/work/c19-{}-{bi}", std::process::id()));
        std::fs::create_dir_all(&dir).unwrap();
        for t in chunk {
            run.count_eval(1);
            let src = twin_a_src(t);
            if has_nested_helper(t) {
                run.nontrivial(fnv(&[src.as_bytes()]));
            }
            run.label(&format!("c19/template{}", t.template % TEMPLATES.len()));
            if samples_done < 2 {
                samples_done += 1;
                run.sample("twin", 2, || json!({"annotated": src, "stripped": strip_typeshare(&src)}));
            }
        }
        evaluate_batch(run, chunk, &dir, true);
        let _ = std::fs::remove_dir_all(&dir);
    }
}

pub fn replay(run: &Run, case: &serde_json::Value) -> Result<Vec<Violation>, String> {
    let t: Twin = serde_json::from_value(case.clone()).map_err(|e| e.to_string())?;
    let dir = PathBuf::from(format!("{VERIF}/work/c19-replay-{}", std::process::id()));
    std::fs::create_dir_all(&dir).map_err(|e| e.to_string())?;
    let vs = evaluate_batch(run, std::slice::from_ref(&t), &dir, false);
    let _ = std::fs::remove_dir_all(&dir);
    run.count_eval(1);
    Ok(run.triage(vs, true))
}
