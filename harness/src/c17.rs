//! C17 — re-running is idempotent and the output depends only on the latest inputs (histories of runs, real binary).
use crate::cli;
use crate::common::*;
use crate::model::*;
use crate::ts::Lang;
use crate::ws::{self, Workspace};
use proptest::prelude::*;
use serde::{Deserialize, Serialize};
use serde_json::json;
use std::os::unix::fs::MetadataExt;
use std::time::{Duration, SystemTime};

#[derive(Clone, Debug, Serialize, Deserialize)]
pub struct Case {
    pub versions: Vec<Workspace>,
    pub seq: Vec<usize>,
    pub lang: Lang,
    pub folder_mode: bool,
    /// per version: which typeshare.toml accompanies the sources (0 none; 1, 2: Swift CodableVoid constraints / default
    /// decorators, i.e. settings that change what the shared Codable.swift has to contain)
    #[serde(default)]
    pub cfg_variant: Vec<u8>,
}

fn variant_toml(v: u8) -> Option<&'static str> {
    match v % 3 {
        1 => Some("[swift]\ncodablevoid_constraints = [\"Equatable\"]\n"),
        2 => Some("[swift]\ndefault_decorators = [\"Sendable\"]\ncodablevoid_constraints = [\"Hashable\", \"Sendable\"]\n"),
        _ => None,
    }
}

fn strip_for(lang: Lang, ws: &Workspace) -> Workspace {
    let mut w = ws.clone();
    if matches!(lang, Lang::Kotlin | Lang::Swift | Lang::Scala) {
        for f in w.files.iter_mut() {
            f.items.retain(|i| !matches!(i.kind, Kind::Const { .. }));
        }
        w.files.retain(|f| !f.items.is_empty());
    }
    w
}

fn old_instant() -> SystemTime {
    SystemTime::UNIX_EPOCH + Duration::from_secs(1_000_000_000)
}

#[derive(Clone)]
struct Snap {
    bytes: Vec<u8>,
    ino: u64,
}

pub struct C17;
impl SubCheck for C17 {
    type Case = Case;
    fn name(&self) -> &'static str {
        "c17-history"
    }
    fn strategy(&self, _tier: Tier) -> BoxedStrategy<Case> {
        // a pool of items; every version is a subset of it, distributed over files in its own way (items move between
        // files and crates); one pool item uses `()` so that Swift's Codable.swift comes and goes
        let nver = 2usize..=4;
        (ws::cli_items(3, 9), ws::slots(1..=3, 2..=5), nver, ws::lang_strategy(), any::<bool>(), any::<bool>(), 0usize..8)
            .prop_flat_map(|(mut items, slots, nver, lang, folder_mode, with_unit, case_pair)| {
                // two definitions whose names differ only in letter case (`Url` / `URL`): whatever orders the definitions of
                // an output file must not fall back on the order in which the source files happened to be parsed
                if case_pair < 4 && !items.iter().any(|i| ["url", "uid"].contains(&i.name.to_lowercase().as_str())) {
                    let (a, b) = [("Url", "URL"), ("UID", "Uid")][case_pair % 2];
                    let first = Item::new(a, Kind::Struct { shape: Shape::Named(vec![Field::new("raw", Ty::Prim(Prim::String))]), rename_all: None });
                    let second = if case_pair < 2 {
                        Item::new(b, Kind::Struct { shape: Shape::Named(vec![Field::new("scheme", Ty::Prim(Prim::String)), Field::new("port", Ty::Prim(Prim::U16))]), rename_all: None })
                    } else {
                        Item::new(b, Kind::Alias { ty: Ty::Vec(Box::new(Ty::Prim(Prim::String))) })
                    };
                    items.push(first);
                    items.push(second);
                }
                if with_unit {
                    let mut it = Item::new("UsesUnit", Kind::Struct { shape: Shape::Named(vec![Field::new("nothing", Ty::Prim(Prim::Unit)), Field::new("n", Ty::Prim(Prim::I32))]), rename_all: None });
                    it.layout = 0;
                    items.push(it);
                }
                let n = items.len();
                (
                    Just(items),
                    Just(slots),
                    proptest::collection::vec((proptest::collection::vec(prop_oneof![3 => Just(true), 1 => Just(false)], n), proptest::collection::vec(0usize..6, n)), nver),
                    Just(lang),
                    Just(folder_mode),
                )
            })
            .prop_flat_map(|(items, slots, vers, lang, folder_mode)| {
                let nv = vers.len();
                (Just(items), Just(slots), Just(vers), Just(lang), Just(folder_mode), proptest::collection::vec(0usize..nv, 2..=6), proptest::collection::vec(prop_oneof![2 => Just(0u8), 1 => Just(1u8), 1 => Just(2u8)], nv))
            })
            .prop_map(|(items, slots, vers, lang, folder_mode, mut seq, cfg_variant)| {
                let versions: Vec<Workspace> = vers
                    .iter()
                    .map(|(mask, assign)| {
                        let chosen: Vec<Item> = items.iter().zip(mask.iter()).filter(|(_, m)| **m).map(|(i, _)| i.clone()).collect();
                        let a: Vec<usize> = assign.iter().zip(mask.iter()).filter(|(_, m)| **m).map(|(a, _)| *a).collect();
                        ws::distribute(chosen, &slots, &a)
                    })
                    .collect();
                // make sure an immediate repeat exists in most sequences
                if seq.len() >= 2 && seq[0] % 2 == 0 {
                    seq[1] = seq[0];
                }
                Case { versions, seq, lang, folder_mode, cfg_variant }
            })
            .boxed()
    }
    fn eval(&self, run: &Run, case: &Case, w: &mut Worker, counting: bool) -> Vec<Violation> {
        let mut out = vec![];
        let lang = case.lang;
        let mode = if case.folder_mode { "folder" } else { "single" };
        let root = cli::fresh_dir(&w.scratch, "c17");
        let persist = root.join("persist");
        std::fs::create_dir_all(&persist).unwrap();
        let has_repeat = case.seq.windows(2).any(|p| p[0] == p[1]);
        let has_change = case.seq.windows(2).any(|p| p[0] != p[1]);
        if counting {
            run.label(&format!("c17/seq/{}/{}/len={}", mode, lang.short(), case.seq.len()));
            if has_repeat && has_change {
                run.nontrivial(hash_of(&(serde_json::to_string(&case.versions).unwrap_or_default(), &case.seq, lang, case.folder_mode)));
            }
            run.sample("history", 2, || json!({"lang": lang.name(), "mode": mode, "sequence": case.seq, "versions": case.versions.iter().map(|v| v.tree().iter().map(|(p, c)| json!({"path": p, "content": String::from_utf8_lossy(c)})).collect::<Vec<_>>()).collect::<Vec<_>>()}));
        }
        let mut prev_version: Option<usize> = None;
        let mut runs = 0u64;
        for (step, &v) in case.seq.iter().enumerate() {
            let Some(wsv) = case.versions.get(v) else { continue };
            let wsx = strip_for(lang, wsv);
            let tree = root.join("tree");
            let _ = std::fs::remove_dir_all(&tree);
            std::fs::create_dir_all(&tree).unwrap();
            cli::write_tree(&tree, &wsx.tree());
            // snapshot + back-date what is there
            let mut before: std::collections::BTreeMap<String, Snap> = Default::default();
            for (rel, bytes) in cli::read_tree(&persist) {
                let p = persist.join(&rel);
                if let Ok(f) = std::fs::OpenOptions::new().write(true).open(&p) {
                    let _ = f.set_modified(old_instant());
                }
                let ino = std::fs::metadata(&p).map(|m| m.ino()).unwrap_or(0);
                before.insert(rel, Snap { bytes, ino });
            }
            // the run into the persistent location
            let cfg = crate::c06::cfg_for_cli();
            let toml = variant_toml(case.cfg_variant.get(v).copied().unwrap_or(0));
            let toml_path = root.join("version.toml");
            if let Some(t) = toml {
                std::fs::write(&toml_path, t).unwrap();
            }
            let args_for = |dest: &std::path::Path| -> Vec<String> {
                let mut args = cli::lang_args(lang, &cfg);
                if toml.is_some() {
                    args.push("-c".into());
                    args.push(toml_path.to_string_lossy().into_owned());
                }
                if case.folder_mode {
                    args.push("-d".into());
                    args.push(dest.to_string_lossy().into_owned());
                } else {
                    args.push("-o".into());
                    args.push(dest.join(format!("out.{}", lang.ext())).to_string_lossy().into_owned());
                }
                args.push(tree.to_string_lossy().into_owned());
                args
            };
            // every other run sees its per-file results in reverse arrival order: the output may not depend on that
            let env: Vec<(String, String)> = if step % 2 == 1 { vec![("TYPESHARE_VERIF_ORDER".into(), "rev".into())] } else { vec![] };
            let r = cli::run(&args_for(&persist), &root, &env, Duration::from_secs(20));
            runs += 1;
            if !r.ok() {
                if counting {
                    run.label(&format!("c17/step-failed/exit={:?}", r.code));
                }
                prev_version = Some(v);
                continue; // nothing is claimed after a failing run
            }
            // reference: the same version into an empty location
            let refdir = root.join("ref");
            let _ = std::fs::remove_dir_all(&refdir);
            std::fs::create_dir_all(&refdir).unwrap();
            let rr = cli::run(&args_for(&refdir), &root, &[], Duration::from_secs(20));
            if !rr.ok() {
                prev_version = Some(v);
                continue;
            }
            let reference = crate::c06::OutputSet(cli::read_tree(&refdir));
            runs += 1;
            let edit = match prev_version {
                None => "first-run",
                Some(pv) if pv == v => "same-version-repeat",
                Some(pv) if case.versions.get(pv).map(|a| a.tree()) == case.versions.get(v).map(|a| a.tree()) => "same-sources-other-config",
                Some(_) => "version-change",
            };
            for (rel, want) in &reference.0 {
                let class = if rel == "Codable.swift" { "Codable.swift" } else if case.folder_mode { "crate-file" } else { "single" };
                let p = persist.join(rel);
                match std::fs::read(&p) {
                    Err(_) => out.push(Violation::new(format!("{}/{}/{}/missing/{}", mode, lang.short(), class, edit), format!("step {step} (version {v}): `{rel}` is created by a run into an empty location but is missing here"))),
                    Ok(got) => {
                        if got != *want {
                            out.push(Violation::new(
                                format!("{}/{}/{}/content-differs/{}", mode, lang.short(), class, edit),
                                format!("step {step} (version {v}): `{rel}` differs from what a run into an empty location produces ({} vs {} bytes)", got.len(), want.len()),
                            ));
                        } else if let Some(b) = before.get(rel) {
                            if b.bytes == got {
                                let md = std::fs::metadata(&p).ok();
                                let mtime = md.as_ref().and_then(|m| m.modified().ok());
                                let ino = md.as_ref().map(|m| m.ino()).unwrap_or(0);
                                if mtime != Some(old_instant()) || ino != b.ino {
                                    out.push(Violation::new(
                                        format!("{}/{}/{}/rewritten-unchanged/{}", mode, lang.short(), class, edit),
                                        format!("step {step} (version {v}): `{rel}` had exactly these bytes before the run but was rewritten (mtime changed: {}, inode changed: {})", mtime != Some(old_instant()), ino != b.ino),
                                    ));
                                }
                            }
                        }
                    }
                }
            }
            prev_version = Some(v);
        }
        if counting {
            run.label_n("c17/process-runs", runs);
        }
        let _ = std::fs::remove_dir_all(&root);
        out.sort_by(|a, b| a.sig.cmp(&b.sig));
        out.dedup_by(|a, b| a.sig == b.sig);
        out
    }
    fn render(&self, case: &Case) -> serde_json::Value {
        json!({"lang": case.lang.name(), "folder_mode": case.folder_mode, "sequence": case.seq, "versions": case.versions.iter().map(|v| v.tree().iter().map(|(p, c)| json!({"path": p, "content": String::from_utf8_lossy(c)})).collect::<Vec<_>>()).collect::<Vec<_>>()})
    }
}

pub fn run(run: &Run) {
    run.set_rule("histories: 2-4 versions of a source tree drawn from one pool of 3-10 items (each version keeps a subset and distributes it over files/crates in its own way: types are added, removed, moved between crates; one pool item uses () so Swift's Codable.swift comes and goes; half of the pools hold two definitions whose names differ only in letter case; a version may come with a typeshare.toml whose Swift settings change what Codable.swift has to contain), a run sequence of length 2-6 over the versions with repetitions, single-file or folder mode, one language. Every other run receives its per-file results in reverse arrival order (hook). After every run that exits 0, with every pre-existing output file back-dated to a fixed old instant: (a) each file a run of that version into an empty location creates exists with identical bytes; (b) each such file whose bytes were already there keeps its modification time and inode. Nothing is claimed about stale files of removed crates or after a failing run. Non-trivial = the sequence contains an immediate repeat and a change of version.");
    run.assume("mtime is observed against a back-dated instant set with File::set_modified, so a rewrite is visible regardless of timestamp granularity");
    if !cli::bin_available() {
        run.inconclusive("typeshare binary not built");
        return;
    }
    replay_regress(run, &C17);
    search(run, &C17, run.tier.pick(600, 6000));
}

pub fn replay(run: &Run, case: &serde_json::Value) -> Result<Vec<Violation>, String> {
    replay_case(run, &C17, case)
}
