//! Generic driver for the fact-based checks (C01-C05, C09, C11, C12): program -> 6 back ends -> observed facts -> oracle.
use crate::common::*;
use crate::gen::{self, GenCfg};
use crate::model::*;
use crate::obs::*;
use crate::observe::Observed;
use crate::prog::*;
use crate::ts::{Cfg, Lang};
use proptest::prelude::*;
use serde_json::json;

pub struct Ctx<'a> {
    pub items: &'a [Item],
    pub cfg: &'a Cfg,
    pub lang: Lang,
    pub text: &'a str,
    pub obs: &'a Observed,
    pub m: &'a Matching,
    pub run: &'a Run,
    pub counting: bool,
}
impl<'a> Ctx<'a> {
    pub fn file(&self) -> &OFile {
        &self.obs.file
    }
    pub fn decl_of(&self, item_idx: usize) -> Option<&ODecl> {
        self.m.item[item_idx].map(|d| &self.obs.file.decls[d])
    }
    pub fn helper_decl(&self, item_idx: usize, var_idx: usize) -> Option<&ODecl> {
        helper_of(self.m, item_idx, var_idx).map(|d| &self.obs.file.decls[d])
    }
    pub fn l(&self) -> &'static str {
        self.lang.short()
    }
}

pub struct FactCheck {
    pub name: &'static str,
    pub gen: fn() -> GenCfg,
    pub langs: &'static [Lang],
    pub oracle: fn(&Ctx) -> Vec<Violation>,
    pub nontrivial: fn(&ProgCase) -> bool,
    pub labels: fn(&ProgCase) -> Vec<String>,
    pub cfgs: fn() -> BoxedStrategy<Cfg>,
    pub exec_python: bool,
    /// post-processing of generated items (e.g. planting structures)
    pub post: fn(Vec<Item>) -> Vec<Item>,
}

pub fn no_post(v: Vec<Item>) -> Vec<Item> {
    v
}
pub fn no_labels(_: &ProgCase) -> Vec<String> {
    vec![]
}

impl SubCheck for FactCheck {
    type Case = ProgCase;
    fn crash_guard(&self) -> bool {
        true
    }
    fn name(&self) -> &'static str {
        self.name
    }
    fn strategy(&self, _tier: Tier) -> BoxedStrategy<ProgCase> {
        let post = self.post;
        (gen::program(&(self.gen)()), (self.cfgs)()).prop_map(move |(items, cfg)| ProgCase { items: post(items), cfg }).boxed()
    }
    fn eval(&self, run: &Run, case: &ProgCase, w: &mut Worker, counting: bool) -> Vec<Violation> {
        if counting {
            let src = items_src(&case.items);
            if (self.nontrivial)(case) {
                run.nontrivial(fnv(&[src.as_bytes(), format!("{:?}", case.cfg).as_bytes()]));
                run.label("nontrivial");
            }
            for l in (self.labels)(case) {
                run.label(&l);
            }
            run.sample("program", 2, || json!({"source": src, "cfg": case.cfg}));
        }
        let oracle = self.oracle;
        for_each_lang(run, case, self.langs, w, counting, self.exec_python, |lang, text, obs| {
            let m = match_decls(&case.items, lang, &case.cfg, &obs.file);
            let ctx = Ctx { items: &case.items, cfg: &case.cfg, lang, text, obs, m: &m, run, counting };
            oracle(&ctx)
        })
    }
    fn render(&self, case: &ProgCase) -> serde_json::Value {
        render(case)
    }
}

/// iterate over every "field container" of the model: (item idx, Some(variant idx), fields, rule, container kind)
pub fn containers(items: &[Item]) -> Vec<(usize, Option<usize>, &Vec<Field>, &Option<String>, &'static str)> {
    let mut out = vec![];
    for (ii, it) in items.iter().enumerate() {
        if !it.annotated || it.serialized_as.is_some() {
            continue;
        }
        match &it.kind {
            Kind::Struct { shape: Shape::Named(fs), rename_all } => out.push((ii, None, fs, rename_all, "struct")),
            Kind::Enum { variants, .. } => {
                for (vi, v) in variants.iter().enumerate() {
                    if v.skipped() {
                        continue;
                    }
                    if let Payload::Struct { fields, rename_all } = &v.payload {
                        out.push((ii, Some(vi), fields, rename_all, "variant"));
                    }
                }
            }
            _ => {}
        }
    }
    out
}

/// observed fields of a container: struct decl fields, or (TS) inline fields of the union member / helper struct fields
pub fn observed_fields<'a>(ctx: &'a Ctx, ii: usize, vi: Option<usize>) -> Option<&'a Vec<OField>> {
    match vi {
        None => ctx.decl_of(ii).filter(|d| d.kind == OKind::Struct).map(|d| &d.fields),
        Some(vi) => {
            if ctx.lang == Lang::TypeScript {
                let d = ctx.decl_of(ii)?;
                // position among non-skipped variants
                let it = &ctx.items[ii];
                if let Kind::Enum { variants, .. } = &it.kind {
                    let pos = variants.iter().enumerate().filter(|(_, v)| !v.skipped()).position(|(i, _)| i == vi)?;
                    if d.cases.len() != variants.iter().filter(|v| !v.skipped()).count() {
                        return None;
                    }
                    return d.cases.get(pos).map(|c| &c.fields);
                }
                None
            } else {
                ctx.helper_decl(ii, vi).map(|d| &d.fields)
            }
        }
    }
}

/// The same fact check with typeshare driven through the real binary (single-file mode, configuration through a
/// typeshare.toml passed with -c): covers the CLI's own parsing front end, configuration plumbing and writer.
#[derive(Clone, Debug, serde::Serialize, serde::Deserialize)]
pub struct CliCase {
    pub via_cli: bool,
    pub prog: ProgCase,
}
pub struct ViaCli<'a> {
    pub inner: &'a FactCheck,
    name: &'static str,
}
impl<'a> ViaCli<'a> {
    pub fn new(inner: &'a FactCheck) -> ViaCli<'a> {
        ViaCli { inner, name: Box::leak(format!("{}-cli", inner.name).into_boxed_str()) }
    }
}
impl<'a> SubCheck for ViaCli<'a> {
    type Case = CliCase;
    fn name(&self) -> &'static str {
        self.name
    }
    fn strategy(&self, tier: Tier) -> BoxedStrategy<CliCase> {
        self.inner.strategy(tier).prop_map(|prog| CliCase { via_cli: true, prog }).boxed()
    }
    fn eval(&self, run: &Run, case: &CliCase, w: &mut Worker, counting: bool) -> Vec<Violation> {
        if counting {
            run.label("via-cli/cases");
        }
        w.via_cli = true;
        let out = self.inner.eval(run, &case.prog, w, counting);
        w.via_cli = false;
        out
    }
    fn render(&self, case: &CliCase) -> serde_json::Value {
        let mut v = render(&case.prog);
        v["via"] = json!("typeshare binary, single-file mode, -c typeshare.toml");
        v["typeshare.toml"] = json!(crate::cli::cfg_toml(&case.prog.cfg));
        v
    }
}

/// replay entry for a fact check: in-process case or CLI case
pub fn replay_fact(run: &Run, fc: &FactCheck, case: &serde_json::Value) -> Result<Vec<Violation>, String> {
    if case.get("via_cli").is_some() {
        if !crate::cli::bin_available() {
            return Err("typeshare binary not built".into());
        }
        return replay_case(run, &ViaCli::new(fc), case);
    }
    replay_case(run, fc, case)
}
