//! C10 — generated files are syntactically well-formed in their target language.
use crate::common::*;
use crate::gen::{self, GenCfg};
use crate::model::*;
use crate::observe::ObsError;
use crate::prog::*;
use crate::ts::{self, Lang, ALL_LANGS};
use proptest::prelude::*;
use serde_json::json;

pub struct C10;

const LIFETIME_ITEMS: &str = r#"
#[typeshare]
pub struct BorrowedText<'a> {
    pub text: &'a str,
}

#[typeshare]
pub struct Matrix<const N: usize> {
    pub cells: Vec<u8>,
}

#[typeshare]
pub struct UsesLifetimes<'a> {
    pub one: BorrowedText<'a>,
    pub many: Vec<BorrowedText<'static>>,
    pub grid: Matrix<3>,
    pub opt: Option<Matrix<4>>,
    pub keyed: HashMap<String, BorrowedText<'a>>,
}

#[typeshare]
pub type AliasOfBorrowed<'a> = BorrowedText<'a>;

#[typeshare]
#[serde(tag = "type", content = "content")]
pub enum LifetimeEvent<'a> {
    Seen(BorrowedText<'a>),
    Grid { cells: Matrix<2> },
}
"#;

fn gen_cfg() -> GenCfg {
    let mut g = GenCfg::base();
    g.max_items = 6;
    g.kinds = [5, 2, 2, 3, 4, 2, 0];
    g.skips = true;
    g.decoys = true;
    g.decorators = true;
    g.benign_docs = true;
    g.item_renames = true;
    g.readonly = true;
    g.keyword_item_names = true;
    g.capital_kw_fields = true;
    g
}

fn features(items: &[Item]) -> Vec<&'static str> {
    let mut f = vec![];
    let mut push = |s: &'static str| {
        if !f.contains(&s) {
            f.push(s)
        }
    };
    for it in items {
        let mut fields: Vec<&Field> = vec![];
        match &it.kind {
            Kind::Enum { variants, .. } => {
                push("enum");
                if variants.iter().all(|v| v.skipped()) {
                    push("empty-body");
                }
                for v in variants {
                    if let Payload::Struct { fields: fs, .. } = &v.payload {
                        fields.extend(fs.iter());
                        if fs.iter().all(|x| x.skipped()) {
                            push("empty-body");
                        }
                    }
                }
            }
            Kind::Struct { shape, .. } => match shape {
                Shape::Named(fs) => {
                    fields.extend(fs.iter());
                    if fs.iter().all(|x| x.skipped()) {
                        push("empty-body");
                    }
                }
                Shape::Unit => push("empty-body"),
                _ => {}
            },
            _ => {}
        }
        for fl in fields {
            if fl.rename.as_deref().map(|r| r.contains('-')).unwrap_or(false) {
                push("dashed-key");
            }
            if fl.raw || gen::TARGET_KW_FIELD_NAMES.contains(&fl.name.as_str()) {
                push("keyword-ident");
            }
            if fl.readonly {
                push("override");
            }
        }
        if !it.decor.swift.is_empty() || it.decor.kotlin_inline || !it.decor.swift_generic_constraints.is_empty() {
            push("decorator");
        }
        if it.decor.redacted {
            push("redaction");
        }
        if it.name == "Type" || it.name == "Protocol" {
            push("keyword-ident");
        }
    }
    f
}

impl SubCheck for C10 {
    type Case = ProgCase;
    fn crash_guard(&self) -> bool {
        true
    }
    fn name(&self) -> &'static str {
        "c10-wellformed"
    }
    fn strategy(&self, _tier: Tier) -> BoxedStrategy<ProgCase> {
        (gen::program(&gen_cfg()), cfg_strategy()).prop_map(|(items, cfg)| ProgCase { items, cfg }).boxed()
    }
    fn eval(&self, run: &Run, case: &ProgCase, w: &mut Worker, counting: bool) -> Vec<Violation> {
        let mut src = items_src(&case.items);
        // a third of the programs also use lifetime and const generics: argument lists typeshare has to drop entirely
        let lifetimes = case.items.first().map(|i| i.layout % 3 == 0).unwrap_or(false);
        if lifetimes {
            src.push_str(LIFETIME_ITEMS);
        }
        let mut feats = features(&case.items);
        if lifetimes {
            feats.push("lifetime-and-const-generics");
        }
        if counting {
            for f in &feats {
                run.label(&format!("feature/{f}"));
            }
            if case.items.len() >= 3 && !feats.is_empty() {
                run.nontrivial(fnv(&[src.as_bytes(), format!("{:?}", case.cfg).as_bytes()]));
            }
            run.sample("program", 2, || json!({"source": src, "features": feats}));
        }
        let mut out = vec![];
        for lang in ALL_LANGS {
            match run_lang(lang, &case.cfg, &src, w, true) {
                LangResult::Observed(_text, o) => {
                    if counting {
                        run.label(&format!("observed/{}", lang.short()));
                    }
                    if let Some(p) = &o.py {
                        if let Some((ty, msg, line, name)) = &p.exec_error {
                            // NameError on a user type is C11's (ordering), on a helper name C12's; anything else is ours
                            if ty == "NameError" {
                                if counting {
                                    run.label("python-nameerror(attributed to C11/C12)");
                                }
                            } else {
                                let msg_class: String = {
                                    // drop identifiers/paths: keep the generic wording of the message
                                    let m = msg.as_str();
                                    if m.contains("is not a generic class") || m.starts_with("typing.Union[") { "not-a-generic-class".to_string() }
                                    else if m.contains("'TypeVar' object is not subscriptable") && case.items.iter().any(|i| !i.generics.is_empty() && matches!(&i.kind, Kind::Alias { ty } | Kind::Struct { shape: Shape::Newtype(ty), .. } if matches!(ty.peel(), Ty::Param(_)))) { "TypeVar-not-subscriptable/generic-alias-to-bare-parameter".to_string() }
                                    else if m.contains("is not subscriptable") { "not-subscriptable".to_string() }
                                    else { m.split_whitespace().filter(|w| w.chars().all(|c| c.is_ascii_lowercase())).take(5).collect::<Vec<_>>().join("-") }
                                };
                                out.push(Violation::new(
                                    format!("python/exec/{ty}:{msg_class}"),
                                    format!("executing the generated module against the stub pydantic raised {ty}: {msg} (line {line}, name {name:?})"),
                                ));
                            }
                        }
                    }
                }
                LangResult::Unobservable(text, e) => {
                    let line = match &e {
                        ObsError::Lex { line, .. } | ObsError::Grammar { line, .. } => *line,
                        _ => 0,
                    };
                    let ctx: String = text.lines().skip(line.saturating_sub(3)).take(5).collect::<Vec<_>>().join("\n");
                    out.push(Violation::new(format!("{}/{}", lang.short(), e.class()), format!("{}: {}\n--- output near line {line}:\n{ctx}", lang.name(), e.show())));
                }
                LangResult::NotGenerated(o) => {
                    if counting {
                        run.label(&format!("not-generated/{}/{}", lang.short(), outcome_class(&o)));
                    }
                }
            }
        }
        out
    }
    fn render(&self, case: &ProgCase) -> serde_json::Value {
        render(case)
    }
}

pub fn run(run: &Run) {
    ts::install_panic_hook();
    run.set_rule("programs of 1-6 items over the supported grammar (structs, newtypes, unit structs, unit enums, tagged enums with unit/newtype/struct variants, aliases; generics; serde renames incl. dashed keys; raw and target-keyword field identifiers; skip markers incl. all-skipped bodies; decoy attributes; swift/kotlin decorators, redaction, readonly; benign doc comments; Swift-keyword type names) x 6 languages x prefix/package/header settings. Oracle: the output tokenises under the target language's lexical rules, brackets nest, every top-level construct matches the declaration grammar of the harness parser for that language (CPython's own parser + execution against a stub pydantic for Python), and Swift identifiers in declaration positions are not bare keywords. Non-trivial = >= 3 items and at least one of {enum, dashed key, keyword identifier, empty body, decorator, redaction, readonly}; distinct by (source, configuration).");
    run.assume("no TypeScript/Kotlin/Swift/Scala/Go toolchain exists offline: those five languages are judged by the harness's own tokeniser + recursive-descent parsers, calibrated to accept all 303 snapshot outputs of the repository; they check lexical closure, nesting and declaration grammar, not typing or name resolution");
    run.assume("Python NameErrors at import are attributed to C11 (user types) / C12 (helper names), not to C10");
    replay_regress(run, &C10);
    search(run, &C10, run.tier.pick(3000, 100_000));
    if crate::cli::bin_available() {
        run.assume("regeneration family: program A then program B are generated into the same path by the real binary; the file must be well-formed whenever a fresh generation of B is");
        replay_regress(run, &C10Rewrite);
        search(run, &C10Rewrite, run.tier.pick(300, 5000));
    } else {
        run.extra("regeneration_family", json!("not run: typeshare binary not built"));
    }
}

pub fn replay(run: &Run, case: &serde_json::Value) -> Result<Vec<Violation>, String> {
    ts::install_panic_hook();
    if case.get("rewrite").is_some() {
        return replay_case(run, &C10Rewrite, case);
    }
    replay_case(run, &C10, case)
}

#[allow(dead_code)]
fn _unused(_: Lang) {}

// =============================================================================================== regeneration family
/// Every output file typeshare *writes* has to be a well-formed unit — also when the path already holds the output of an
/// earlier run (shorter, longer, other language constructs). Through the real binary: generate program A to a path, then
/// program B to the same path; the file must be well-formed whenever a fresh generation of B is.
#[derive(Clone, Debug, serde::Serialize, serde::Deserialize)]
pub struct RewriteCase {
    pub rewrite: bool,
    pub first: ProgCase,
    pub second: ProgCase,
    pub lang: Lang,
    pub folder: bool,
}
pub struct C10Rewrite;
impl SubCheck for C10Rewrite {
    type Case = RewriteCase;
    fn name(&self) -> &'static str {
        "c10-regeneration"
    }
    fn strategy(&self, _tier: Tier) -> BoxedStrategy<RewriteCase> {
        let g = gen_cfg();
        (gen::program(&g), gen::program(&g), cfg_strategy(), crate::ws::lang_strategy(), any::<bool>())
            .prop_map(|(a, b, cfg, lang, folder)| RewriteCase { rewrite: true, first: ProgCase { items: a, cfg: cfg.clone() }, second: ProgCase { items: b, cfg }, lang, folder })
            .boxed()
    }
    fn eval(&self, run: &Run, c: &RewriteCase, w: &mut Worker, counting: bool) -> Vec<Violation> {
        use crate::cli;
        let mut out = vec![];
        let lang = c.lang;
        let root = cli::fresh_dir(&w.scratch, "c10rw");
        cli::write_tree(
            &root,
            &[
                ("one/my_crate/src/lib.rs".into(), items_src(&c.first.items).into_bytes()),
                ("two/my_crate/src/lib.rs".into(), items_src(&c.second.items).into_bytes()),
                // folder mode writes one module per crate with one back-end instance: a small second crate that needs
                // fewer helpers than the first must come out well-formed too
                ("one/zz_small/src/lib.rs".into(), b"#[typeshare]\npub struct SmallOne {\n    pub plain: String,\n}\n".to_vec()),
                ("two/zz_small/src/lib.rs".into(), b"#[typeshare]\npub struct SmallOne {\n    pub plain: String,\n}\n\n#[typeshare]\npub type SmallAlias = String;\n".to_vec()),
                ("conf/typeshare.toml".into(), cli::cfg_toml(&c.second.cfg).into_bytes()),
            ],
        );
        let gen = |input: &str, dest: &std::path::Path| -> cli::CliRun {
            let mut args: Vec<String> = vec!["--lang".into(), lang.name().into(), "-c".into(), root.join("conf/typeshare.toml").to_string_lossy().into_owned()];
            args.push(if c.folder { "-d".into() } else { "-o".into() });
            args.push(dest.to_string_lossy().into_owned());
            args.push(root.join(input).to_string_lossy().into_owned());
            cli::run(&args, &root, &[], std::time::Duration::from_secs(20))
        };
        let (reused, fresh) = if c.folder { (root.join("out_dir"), root.join("fresh_dir")) } else { (root.join(format!("out.{}", lang.ext())), root.join(format!("fresh.{}", lang.ext()))) };
        if c.folder {
            let _ = std::fs::create_dir_all(&reused);
            let _ = std::fs::create_dir_all(&fresh);
        }
        let r1 = gen("one", &reused);
        let r2 = gen("two", &reused);
        let r3 = gen("two", &fresh);
        if counting {
            run.label(&format!("c10rw/{}/{}/first={} second={}", lang.short(), if c.folder { "folder" } else { "file" }, r1.ok(), r2.ok()));
        }
        if r1.ok() && r2.ok() && r3.ok() {
            let read = |p: &std::path::Path| -> Vec<(String, Vec<u8>)> {
                if c.folder { cli::read_tree(p) } else { vec![("out".into(), std::fs::read(p).unwrap_or_default())] }
            };
            let a = read(&reused);
            let b = read(&fresh);
            let shrank = a.iter().zip(b.iter()).any(|(x, y)| x.1.len() != y.1.len());
            if counting {
                run.nontrivial(hash_of(&(items_src(&c.first.items), items_src(&c.second.items), lang, c.folder)));
            }
            for (name, bytes) in &b {
                let fresh_ok = crate::observe::observe(lang, &String::from_utf8_lossy(bytes), w, false).is_ok();
                let Some((_, again)) = a.iter().find(|(n, _)| n == name) else { continue };
                if !fresh_ok {
                    // a single-crate output that is ill-formed on its own is the in-process family's business; a module of
                    // a multi-crate folder run is only ever written here
                    if c.folder && name.to_lowercase().contains("zz_small") || c.folder && name.to_lowercase().contains("zzsmall") {
                        out.push(Violation::new(
                            format!("regeneration/{}/folder/second-module-ill-formed", lang.short()),
                            format!("{}: folder mode, second crate: `{name}` is not well-formed although the crate only holds a struct with one String field and an alias", lang.name()),
                        ));
                    }
                    continue;
                }
                if let Err(e) = crate::observe::observe(lang, &String::from_utf8_lossy(again), w, false) {
                    out.push(Violation::new(
                        format!("regeneration/{}/{}/ill-formed-only-when-the-path-held-an-earlier-output", lang.short(), if c.folder { "folder" } else { "file" }),
                        format!("{}: generating into a path that already holds an earlier output leaves an ill-formed file ({}; lengths differ from a fresh generation: {shrank}); a fresh generation of the same input is well-formed", lang.name(), e.class()),
                    ));
                }
            }
        }
        let _ = std::fs::remove_dir_all(&root);
        out
    }
    fn render(&self, c: &RewriteCase) -> serde_json::Value {
        json!({"lang": c.lang.name(), "folder_mode": c.folder, "first_source": items_src(&c.first.items), "second_source": items_src(&c.second.items), "typeshare.toml": crate::cli::cfg_toml(&c.second.cfg)})
    }
}
