//! C10 — generated files are syntactically well-formed in their target language.
use crate::common::*;
use crate::gen::{self, GenCfg};
use crate::model::*;
use crate::observe::ObsError;
use crate::prog::*;
use crate::ts::{self, Lang, ALL_LANGS};
use proptest::prelude::*;
use serde_json::json;

pub struct C10;

fn gen_cfg() -> GenCfg {
    let mut g = GenCfg::base();
    g.max_items = 6;
    g.kinds = [5, 2, 2, 3, 4, 2, 0];
    g.skips = true;
    g.decoys = true;
    g.decorators = true;
    g.benign_docs = true;
    g.item_renames = true;
    g.readonly = true;
    g.keyword_item_names = true;
    g.capital_kw_fields = true;
    g
}

fn features(items: &[Item]) -> Vec<&'static str> {
    let mut f = vec![];
    let mut push = |s: &'static str| {
        if !f.contains(&s) {
            f.push(s)
        }
    };
    for it in items {
        let mut fields: Vec<&Field> = vec![];
        match &it.kind {
            Kind::Enum { variants, .. } => {
                push("enum");
                if variants.iter().all(|v| v.skipped()) {
                    push("empty-body");
                }
                for v in variants {
                    if let Payload::Struct { fields: fs, .. } = &v.payload {
                        fields.extend(fs.iter());
                        if fs.iter().all(|x| x.skipped()) {
                            push("empty-body");
                        }
                    }
                }
            }
            Kind::Struct { shape, .. } => match shape {
                Shape::Named(fs) => {
                    fields.extend(fs.iter());
                    if fs.iter().all(|x| x.skipped()) {
                        push("empty-body");
                    }
                }
                Shape::Unit => push("empty-body"),
                _ => {}
            },
            _ => {}
        }
        for fl in fields {
            if fl.rename.as_deref().map(|r| r.contains('-')).unwrap_or(false) {
                push("dashed-key");
            }
            if fl.raw || gen::TARGET_KW_FIELD_NAMES.contains(&fl.name.as_str()) {
                push("keyword-ident");
            }
            if fl.readonly {
                push("override");
            }
        }
        if !it.decor.swift.is_empty() || it.decor.kotlin_inline || !it.decor.swift_generic_constraints.is_empty() {
            push("decorator");
        }
        if it.decor.redacted {
            push("redaction");
        }
        if it.name == "Type" || it.name == "Protocol" {
            push("keyword-ident");
        }
    }
    f
}

impl SubCheck for C10 {
    type Case = ProgCase;
    fn name(&self) -> &'static str {
        "c10-wellformed"
    }
    fn strategy(&self, _tier: Tier) -> BoxedStrategy<ProgCase> {
        (gen::program(&gen_cfg()), cfg_strategy()).prop_map(|(items, cfg)| ProgCase { items, cfg }).boxed()
    }
    fn eval(&self, run: &Run, case: &ProgCase, w: &mut Worker, counting: bool) -> Vec<Violation> {
        let src = items_src(&case.items);
        let feats = features(&case.items);
        if counting {
            for f in &feats {
                run.label(&format!("feature/{f}"));
            }
            if case.items.len() >= 3 && !feats.is_empty() {
                run.nontrivial(fnv(&[src.as_bytes(), format!("{:?}", case.cfg).as_bytes()]));
            }
            run.sample("program", 2, || json!({"source": src, "features": feats}));
        }
        let mut out = vec![];
        for lang in ALL_LANGS {
            match run_lang(lang, &case.cfg, &src, w, true) {
                LangResult::Observed(_text, o) => {
                    if counting {
                        run.label(&format!("observed/{}", lang.short()));
                    }
                    if let Some(p) = &o.py {
                        if let Some((ty, msg, line, name)) = &p.exec_error {
                            // NameError on a user type is C11's (ordering), on a helper name C12's; anything else is ours
                            if ty == "NameError" {
                                if counting {
                                    run.label("python-nameerror(attributed to C11/C12)");
                                }
                            } else {
                                let msg_class: String = {
                                    // drop identifiers/paths: keep the generic wording of the message
                                    let m = msg.as_str();
                                    if m.contains("is not a generic class") || m.starts_with("typing.Union[") { "not-a-generic-class".to_string() }
                                    else if m.contains("'TypeVar' object is not subscriptable") && case.items.iter().any(|i| !i.generics.is_empty() && matches!(&i.kind, Kind::Alias { ty } | Kind::Struct { shape: Shape::Newtype(ty), .. } if matches!(ty.peel(), Ty::Param(_)))) { "TypeVar-not-subscriptable/generic-alias-to-bare-parameter".to_string() }
                                    else if m.contains("is not subscriptable") { "not-subscriptable".to_string() }
                                    else { m.split_whitespace().filter(|w| w.chars().all(|c| c.is_ascii_lowercase())).take(5).collect::<Vec<_>>().join("-") }
                                };
                                out.push(Violation::new(
                                    format!("python/exec/{ty}:{msg_class}"),
                                    format!("executing the generated module against the stub pydantic raised {ty}: {msg} (line {line}, name {name:?})"),
                                ));
                            }
                        }
                    }
                }
                LangResult::Unobservable(text, e) => {
                    let line = match &e {
                        ObsError::Lex { line, .. } | ObsError::Grammar { line, .. } => *line,
                        _ => 0,
                    };
                    let ctx: String = text.lines().skip(line.saturating_sub(3)).take(5).collect::<Vec<_>>().join("\n");
                    out.push(Violation::new(format!("{}/{}", lang.short(), e.class()), format!("{}: {}\n--- output near line {line}:\n{ctx}", lang.name(), e.show())));
                }
                LangResult::NotGenerated(o) => {
                    if counting {
                        run.label(&format!("not-generated/{}/{}", lang.short(), outcome_class(&o)));
                    }
                }
            }
        }
        out
    }
    fn render(&self, case: &ProgCase) -> serde_json::Value {
        render(case)
    }
}

pub fn run(run: &Run) {
    ts::install_panic_hook();
    run.set_rule("programs of 1-6 items over the supported grammar (structs, newtypes, unit structs, unit enums, tagged enums with unit/newtype/struct variants, aliases; generics; serde renames incl. dashed keys; raw and target-keyword field identifiers; skip markers incl. all-skipped bodies; decoy attributes; swift/kotlin decorators, redaction, readonly; benign doc comments; Swift-keyword type names) x 6 languages x prefix/package/header settings. Oracle: the output tokenises under the target language's lexical rules, brackets nest, every top-level construct matches the declaration grammar of the harness parser for that language (CPython's own parser + execution against a stub pydantic for Python), and Swift identifiers in declaration positions are not bare keywords. Non-trivial = >= 3 items and at least one of {enum, dashed key, keyword identifier, empty body, decorator, redaction, readonly}; distinct by (source, configuration).");
    run.assume("no TypeScript/Kotlin/Swift/Scala/Go toolchain exists offline: those five languages are judged by the harness's own tokeniser + recursive-descent parsers, calibrated to accept all 303 snapshot outputs of the repository; they check lexical closure, nesting and declaration grammar, not typing or name resolution");
    run.assume("Python NameErrors at import are attributed to C11 (user types) / C12 (helper names), not to C10");
    replay_regress(run, &C10);
    search(run, &C10, run.tier.pick(3000, 100_000));
}

pub fn replay(run: &Run, case: &serde_json::Value) -> Result<Vec<Violation>, String> {
    ts::install_panic_hook();
    replay_case(run, &C10, case)
}

#[allow(dead_code)]
fn _unused(_: Lang) {}
