//! Language-neutral model of a Rust source file with #[typeshare] items, and its printer (model -> Rust text).
use serde::{Deserialize, Serialize};

#[derive(Clone, Copy, Debug, PartialEq, Eq, Hash, Serialize, Deserialize)]
pub enum Prim {
    Bool,
    Char,
    String,
    Str,
    I8,
    I16,
    I32,
    U8,
    U16,
    U32,
    I54,
    U53,
    F32,
    F64,
    Unit,
}
pub const ALL_PRIMS: [Prim; 15] = [
    Prim::Bool,
    Prim::Char,
    Prim::String,
    Prim::Str,
    Prim::I8,
    Prim::I16,
    Prim::I32,
    Prim::U8,
    Prim::U16,
    Prim::U32,
    Prim::I54,
    Prim::U53,
    Prim::F32,
    Prim::F64,
    Prim::Unit,
];
impl Prim {
    pub fn rust(self) -> &'static str {
        match self {
            Prim::Bool => "bool",
            Prim::Char => "char",
            Prim::String => "String",
            Prim::Str => "&str",
            Prim::I8 => "i8",
            Prim::I16 => "i16",
            Prim::I32 => "i32",
            Prim::U8 => "u8",
            Prim::U16 => "u16",
            Prim::U32 => "u32",
            Prim::I54 => "I54",
            Prim::U53 => "U53",
            Prim::F32 => "f32",
            Prim::F64 => "f64",
            Prim::Unit => "()",
        }
    }
    pub fn is_unsigned(self) -> bool {
        matches!(self, Prim::U8 | Prim::U16 | Prim::U32 | Prim::U53)
    }
}

#[derive(Clone, Copy, Debug, PartialEq, Eq, Hash, Serialize, Deserialize)]
pub enum Wrapper {
    Box,
    Arc,
    Rc,
    Cow,
    Cell,
    RefCell,
    Mutex,
    RwLock,
}
pub const ALL_WRAPPERS: [Wrapper; 8] =
    [Wrapper::Box, Wrapper::Arc, Wrapper::Rc, Wrapper::Cow, Wrapper::Cell, Wrapper::RefCell, Wrapper::Mutex, Wrapper::RwLock];

#[derive(Clone, Copy, Debug, PartialEq, Eq, Hash, Serialize, Deserialize)]
pub enum BadPrim {
    U64,
    I64,
    Usize,
    Isize,
}

#[derive(Clone, Debug, PartialEq, Eq, Hash, Serialize, Deserialize)]
pub enum Ty {
    Prim(Prim),
    /// a user (typeshared) type, possibly with generic arguments
    User { name: String, args: Vec<Ty> },
    /// a generic parameter of the enclosing item
    Param(String),
    Vec(Box<Ty>),
    Array(Box<Ty>, usize),
    Slice(Box<Ty>),
    Opt(Box<Ty>),
    Map(Box<Ty>, Box<Ty>),
    Wrap(Wrapper, Box<Ty>),
    Ref(Box<Ty>),
    /// path-qualified spelling of the inner type (`std::vec::Vec<T>`, `crate::m::Foo`)
    Qual(Vec<String>, Box<Ty>),
    DateTime,
    /// unsupported (C07/C08 generators only)
    Bad(BadPrim),
    Tuple(Vec<Ty>),
}

impl Ty {
    pub fn user(n: &str) -> Ty {
        Ty::User { name: n.to_string(), args: vec![] }
    }
    pub fn rust(&self) -> String {
        match self {
            Ty::Prim(p) => p.rust().to_string(),
            Ty::User { name, args } => {
                if args.is_empty() {
                    name.clone()
                } else {
                    format!("{}<{}>", name, args.iter().map(|a| a.rust()).collect::<Vec<_>>().join(", "))
                }
            }
            Ty::Param(p) => p.clone(),
            Ty::Vec(t) => format!("Vec<{}>", t.rust()),
            Ty::Array(t, n) => format!("[{}; {}]", t.rust(), n),
            Ty::Slice(t) => format!("&[{}]", t.rust()),
            Ty::Opt(t) => format!("Option<{}>", t.rust()),
            Ty::Map(k, v) => format!("HashMap<{}, {}>", k.rust(), v.rust()),
            Ty::Wrap(w, t) => match w {
                Wrapper::Cow => format!("Cow<'static, {}>", t.rust()),
                _ => format!("{:?}<{}>", w, t.rust()),
            },
            Ty::Ref(t) => format!("&{}", t.rust()),
            // `@hasher`: a HashMap written with its third (hasher) argument
            Ty::Qual(path, t) if path.len() == 1 && path[0] == "@hasher" => match t.as_ref() {
                Ty::Map(k, v) => format!("HashMap<{}, {}, {}>", k.rust(), v.rust(), if k.rust().len() % 2 == 0 { "RandomState" } else { "BuildHasherDefault<FxHasher>" }),
                other => other.rust(),
            },
            Ty::Qual(path, t) => format!("{}::{}", path.join("::"), t.rust()),
            Ty::DateTime => "OffsetDateTime".to_string(),
            Ty::Bad(b) => match b {
                BadPrim::U64 => "u64",
                BadPrim::I64 => "i64",
                BadPrim::Usize => "usize",
                BadPrim::Isize => "isize",
            }
            .to_string(),
            Ty::Tuple(ts) => {
                if ts.len() == 1 {
                    format!("({},)", ts[0].rust())
                } else if ts.len() % 2 == 1 {
                    // rustfmt's multi-line layout ends the list with a comma
                    format!("({},)", ts.iter().map(|a| a.rust()).collect::<Vec<_>>().join(", "))
                } else {
                    format!("({})", ts.iter().map(|a| a.rust()).collect::<Vec<_>>().join(", "))
                }
            }
        }
    }
    /// strip references, serde-transparent wrappers and path qualification (what serde / typeshare see through)
    pub fn peel(&self) -> &Ty {
        match self {
            Ty::Wrap(_, t) | Ty::Ref(t) | Ty::Qual(_, t) => t.peel(),
            _ => self,
        }
    }
    pub fn depth(&self) -> usize {
        match self {
            Ty::Prim(_) | Ty::Param(_) | Ty::DateTime | Ty::Bad(_) => 1,
            Ty::User { args, .. } => 1 + args.iter().map(|a| a.depth()).max().unwrap_or(0),
            Ty::Vec(t) | Ty::Array(t, _) | Ty::Slice(t) | Ty::Opt(t) | Ty::Wrap(_, t) | Ty::Ref(t) | Ty::Qual(_, t) => 1 + t.depth(),
            Ty::Map(k, v) => 1 + k.depth().max(v.depth()),
            Ty::Tuple(ts) => 1 + ts.iter().map(|a| a.depth()).max().unwrap_or(0),
        }
    }
    pub fn walk<'a>(&'a self, f: &mut dyn FnMut(&'a Ty)) {
        f(self);
        match self {
            Ty::User { args, .. } => args.iter().for_each(|a| a.walk(f)),
            Ty::Vec(t) | Ty::Array(t, _) | Ty::Slice(t) | Ty::Opt(t) | Ty::Wrap(_, t) | Ty::Ref(t) | Ty::Qual(_, t) => t.walk(f),
            Ty::Map(k, v) => {
                k.walk(f);
                v.walk(f)
            }
            Ty::Tuple(ts) => ts.iter().for_each(|a| a.walk(f)),
            _ => {}
        }
    }
    pub fn user_refs(&self) -> Vec<&str> {
        let mut out = vec![];
        self.walk(&mut |t| {
            if let Ty::User { name, .. } = t {
                out.push(name.as_str());
            }
        });
        out
    }
    pub fn contains(&self, pred: &dyn Fn(&Ty) -> bool) -> bool {
        let mut found = false;
        self.walk(&mut |t| {
            if pred(t) {
                found = true;
            }
        });
        found
    }
}

#[derive(Clone, Copy, Debug, PartialEq, Eq, Hash, Serialize, Deserialize)]
pub enum Dflt {
    None,
    /// `#[serde(default)]`
    Bare,
    /// `#[serde(default = "path")]` — decoy: not the bare form
    Path,
}
#[derive(Clone, Copy, Debug, PartialEq, Eq, Hash, Serialize, Deserialize)]
pub enum Skip {
    None,
    Serde,
    Typeshare,
}
#[derive(Clone, Copy, Debug, PartialEq, Eq, Hash, Serialize, Deserialize)]
pub enum Decoy {
    SkipSerializingIf,
    SkipDeserializing,
    SkipSerializing,
    Alias,
    With,
}

/// How a doc string is spelled in the source.
#[derive(Clone, Debug, PartialEq, Eq, Hash, Serialize, Deserialize)]
pub enum Doc {
    /// `/// text` (text must not contain a newline)
    Line(String),
    /// `/** text */` (text must not contain `*/`)
    Block(String),
    /// `#[doc = "text"]` (anything)
    Attr(String),
    /// not documentation: another attribute written between two doc lines (`#[allow(dead_code)]`, `#[doc(hidden)]`)
    NonDoc(String),
}
impl Doc {
    pub fn text(&self) -> &str {
        match self {
            Doc::Line(s) | Doc::Block(s) | Doc::Attr(s) => s,
            Doc::NonDoc(_) => "",
        }
    }
}

/// cfg expression (C13)
#[derive(Clone, Debug, PartialEq, Eq, Hash, Serialize, Deserialize)]
pub enum Cfg {
    Os(String),
    Feature(String),
    Word(String),
    Any(Vec<Cfg>),
    All(Vec<Cfg>),
    Not(Vec<Cfg>),
}
impl Cfg {
    pub fn rust(&self) -> String {
        match self {
            Cfg::Os(s) => format!("target_os = {:?}", s),
            Cfg::Feature(s) => format!("feature = {:?}", s),
            Cfg::Word(w) => w.clone(),
            Cfg::Any(v) => format!("any({})", v.iter().map(|c| c.rust()).collect::<Vec<_>>().join(", ")),
            Cfg::All(v) => format!("all({})", v.iter().map(|c| c.rust()).collect::<Vec<_>>().join(", ")),
            Cfg::Not(v) => format!("not({})", v.iter().map(|c| c.rust()).collect::<Vec<_>>().join(", ")),
        }
    }
}

#[derive(Clone, Debug, PartialEq, Eq, Hash, Serialize, Deserialize)]
pub struct Field {
    /// identifier without `r#`
    pub name: String,
    pub raw: bool,
    pub ty: Ty,
    pub rename: Option<String>,
    pub default: Dflt,
    pub skip: Skip,
    pub decoys: Vec<Decoy>,
    pub docs: Vec<Doc>,
    pub cfgs: Vec<Cfg>,
    /// `#[typeshare(typescript(readonly))]`
    pub readonly: bool,
    /// `#[serde(flatten)]` (C08 only)
    pub flatten: bool,
    /// `#[typeshare(serialized_as = "..")]` on the field
    pub serialized_as: Option<Ty>,
    /// attribute spelling/order selector
    pub layout: u8,
    /// `#[typeshare(<lang>(type = "<text>"))]`: the field's type is written verbatim for that one language
    #[serde(default)]
    pub type_override: Option<(String, String)>,
}
impl Field {
    pub fn new(name: &str, ty: Ty) -> Field {
        Field {
            name: name.to_string(),
            raw: false,
            ty,
            rename: None,
            default: Dflt::None,
            skip: Skip::None,
            decoys: vec![],
            docs: vec![],
            cfgs: vec![],
            readonly: false,
            flatten: false,
            serialized_as: None,
            layout: 0,
            type_override: None,
        }
    }
    pub fn skipped(&self) -> bool {
        self.skip != Skip::None
    }
    /// the type typeshare sees (serialized_as override wins)
    pub fn eff_ty(&self) -> &Ty {
        self.serialized_as.as_ref().unwrap_or(&self.ty)
    }
}

#[derive(Clone, Debug, PartialEq, Eq, Hash, Serialize, Deserialize)]
pub enum Payload {
    Unit,
    Newtype(Ty),
    Struct { fields: Vec<Field>, rename_all: Option<String> },
    /// unsupported shapes (C07/C08 only)
    Tuple(Vec<Ty>),
}

#[derive(Clone, Debug, PartialEq, Eq, Hash, Serialize, Deserialize)]
pub struct Variant {
    pub name: String,
    pub rename: Option<String>,
    pub skip: Skip,
    pub payload: Payload,
    pub docs: Vec<Doc>,
    pub cfgs: Vec<Cfg>,
    pub layout: u8,
}
impl Variant {
    pub fn unit(name: &str) -> Variant {
        Variant { name: name.to_string(), rename: None, skip: Skip::None, payload: Payload::Unit, docs: vec![], cfgs: vec![], layout: 0 }
    }
    pub fn skipped(&self) -> bool {
        self.skip != Skip::None
    }
}

#[derive(Clone, Debug, PartialEq, Eq, Hash, Serialize, Deserialize)]
pub enum Shape {
    Named(Vec<Field>),
    Newtype(Ty),
    Unit,
    /// unsupported (C07/C08 only): tuple struct with n fields (n = 0 or >= 2)
    Tuple(Vec<Ty>),
}

#[derive(Clone, Debug, PartialEq, Eq, Hash, Serialize, Deserialize)]
pub enum Kind {
    Struct { shape: Shape, rename_all: Option<String> },
    Enum { variants: Vec<Variant>, rename_all: Option<String>, tag: Option<String>, content: Option<String> },
    Alias { ty: Ty },
    Const { ty: Ty, expr: String },
}

#[derive(Clone, Debug, Default, PartialEq, Eq, Hash, Serialize, Deserialize)]
pub struct Decor {
    /// `#[typeshare(swift = "A, B")]`
    pub swift: Vec<String>,
    /// `#[typeshare(kotlin = "JvmInline")]`
    pub kotlin_inline: bool,
    /// `#[typeshare(swiftGenericConstraints = "T: Equatable & Hashable")]`
    pub swift_generic_constraints: Vec<String>,
    pub redacted: bool,
}

#[derive(Clone, Debug, PartialEq, Eq, Hash, Serialize, Deserialize)]
pub struct Item {
    pub name: String,
    pub generics: Vec<String>,
    pub kind: Kind,
    pub serde_rename: Option<String>,
    pub annotated: bool,
    pub docs: Vec<Doc>,
    pub cfgs: Vec<Cfg>,
    pub decor: Decor,
    /// `#[typeshare(serialized_as = "..")]` on the item (turns it into an alias)
    pub serialized_as: Option<Ty>,
    /// nested `mod a { mod b { .. } }` path
    pub mod_path: Vec<String>,
    pub layout: u8,
    /// enum-level `#[serde(rename_all_fields = "..")]` written next to per-variant `rename_all` rules: serde lets the
    /// variant's own rule win, so this attribute must not change any key (it is only set when every struct variant has a rule)
    #[serde(default)]
    pub decoy_rename_all_fields: Option<String>,
}
impl Item {
    pub fn new(name: &str, kind: Kind) -> Item {
        Item {
            name: name.to_string(),
            generics: vec![],
            kind,
            serde_rename: None,
            annotated: true,
            docs: vec![],
            cfgs: vec![],
            decor: Decor::default(),
            serialized_as: None,
            mod_path: vec![],
            layout: 0,
            decoy_rename_all_fields: None,
        }
    }
    pub fn kind_name(&self) -> &'static str {
        match &self.kind {
            Kind::Struct { shape: Shape::Newtype(_), .. } => "newtype-struct",
            Kind::Struct { shape: Shape::Unit, .. } => "unit-struct",
            Kind::Struct { .. } => "struct",
            Kind::Enum { variants, .. } => {
                if variants.iter().filter(|v| !v.skipped()).all(|v| matches!(v.payload, Payload::Unit)) {
                    "unit-enum"
                } else {
                    "tagged-enum"
                }
            }
            Kind::Alias { .. } => "alias",
            Kind::Const { .. } => "const",
        }
    }
    /// name the item is known by after serde(rename)
    pub fn renamed(&self) -> &str {
        self.serde_rename.as_deref().unwrap_or(&self.name)
    }
}

#[derive(Clone, Debug, Default, PartialEq, Eq, Hash, Serialize, Deserialize)]
pub struct SrcFile {
    /// `#![cfg(..)]` inner attributes
    pub inner_cfgs: Vec<Cfg>,
    /// verbatim `use ...;` lines
    pub uses: Vec<String>,
    pub items: Vec<Item>,
}

// ------------------------------------------------------------------------------------------------ printer

fn esc(s: &str) -> String {
    // a Rust string literal for any content
    format!("{:?}", s)
}

fn doc_lines(docs: &[Doc], ind: &str, out: &mut String) {
    for d in docs {
        match d {
            Doc::Line(t) => {
                out.push_str(ind);
                out.push_str("///");
                out.push_str(t);
                out.push('\n');
            }
            Doc::Block(t) => {
                out.push_str(ind);
                out.push_str("/**");
                out.push_str(t);
                out.push_str("*/\n");
            }
            Doc::Attr(t) => {
                out.push_str(ind);
                out.push_str(&format!("#[doc = {}]\n", esc(t)));
            }
            Doc::NonDoc(a) => {
                out.push_str(ind);
                out.push_str(&format!("#[{a}]\n"));
            }
        }
    }
}

fn cfg_lines(cfgs: &[Cfg], ind: &str, out: &mut String) {
    for c in cfgs {
        out.push_str(&format!("{ind}#[cfg({})]\n", c.rust()));
    }
}

/// serde / typeshare attribute lines for a list of arguments, merged or split according to layout
fn attr_lines(name: &str, args: &[String], layout: u8, ind: &str, out: &mut Vec<String>) {
    if args.is_empty() {
        return;
    }
    let split = layout & 1 == 1;
    let trailing = layout & 2 == 2;
    let rev = layout & 4 == 4;
    let mut a: Vec<String> = args.to_vec();
    if rev {
        a.reverse();
    }
    if split {
        for x in a {
            out.push(format!("{ind}#[{name}({x})]\n"));
        }
    } else {
        out.push(format!("{ind}#[{name}({}{})]\n", a.join(", "), if trailing { "," } else { "" }));
    }
}

fn field_src(f: &Field, ind: &str, vis: &str, out: &mut String) {
    doc_lines(&f.docs, ind, out);
    cfg_lines(&f.cfgs, ind, out);
    let mut serde: Vec<String> = vec![];
    if let Some(r) = &f.rename {
        serde.push(format!("rename = {}", esc(r)));
    }
    match f.default {
        Dflt::Bare => serde.push("default".into()),
        Dflt::Path => serde.push("default = \"make_default\"".into()),
        Dflt::None => {}
    }
    if f.skip == Skip::Serde {
        serde.push("skip".into());
    }
    if f.flatten {
        serde.push("flatten".into());
    }
    for d in &f.decoys {
        serde.push(
            match d {
                Decoy::SkipSerializingIf => "skip_serializing_if = \"Option::is_none\"",
                Decoy::SkipDeserializing => "skip_deserializing",
                Decoy::SkipSerializing => "skip_serializing",
                Decoy::Alias => "alias = \"other_name\"",
                Decoy::With => "with = \"some::module\"",
            }
            .to_string(),
        );
    }
    let mut tsa: Vec<String> = vec![];
    if f.skip == Skip::Typeshare {
        tsa.push("skip".into());
    }
    if f.readonly {
        tsa.push("typescript(readonly)".into());
    }
    if let Some(t) = &f.serialized_as {
        tsa.push(format!("serialized_as = {}", esc(&t.rust())));
    }
    if let Some((lang, text)) = &f.type_override {
        tsa.push(format!("{lang}(type = {})", esc(text)));
    }
    let mut lines: Vec<String> = vec![];
    let mut l2: Vec<String> = vec![];
    attr_lines("serde", &serde, f.layout, ind, &mut lines);
    attr_lines("typeshare", &tsa, f.layout >> 1, ind, &mut l2);
    if f.layout & 8 == 8 {
        l2.extend(lines);
        lines = l2;
    } else {
        lines.extend(l2);
    }
    for l in lines {
        out.push_str(&l);
    }
    out.push_str(&format!("{ind}{vis}{}{}: {},\n", if f.raw { "r#" } else { "" }, f.name, f.ty.rust()));
}

fn generics_src(g: &[String]) -> String {
    if g.is_empty() {
        String::new()
    } else {
        format!("<{}>", g.join(", "))
    }
}

pub fn item_src(it: &Item) -> String {
    let mut out = String::new();
    let depth = it.mod_path.len();
    for (i, m) in it.mod_path.iter().enumerate() {
        // a path segment can also be a function body (`fn:name`) or a method body (`implfn:name`): items may be declared there
        if let Some(f) = m.strip_prefix("fn:") {
            out.push_str(&format!("{}pub fn {}() {{\n", "    ".repeat(i), f));
        } else if let Some(f) = m.strip_prefix("implfn:") {
            out.push_str(&format!("{}impl Holder {{ pub fn {}(&self) {{\n", "    ".repeat(i), f));
        } else {
            out.push_str(&format!("{}pub mod {} {{\n", "    ".repeat(i), m));
        }
    }
    let ind = "    ".repeat(depth);
    let ind1 = "    ".repeat(depth + 1);
    let ind2 = "    ".repeat(depth + 2);
    doc_lines(&it.docs, &ind, &mut out);
    cfg_lines(&it.cfgs, &ind, &mut out);
    // typeshare attribute (item level) and its arguments
    let mut tsargs: Vec<String> = vec![];
    if !it.decor.swift.is_empty() {
        tsargs.push(format!("swift = {}", esc(&it.decor.swift.join(", "))));
    }
    if it.decor.kotlin_inline {
        tsargs.push("kotlin = \"JvmInline\"".into());
    }
    if !it.decor.swift_generic_constraints.is_empty() {
        tsargs.push(format!("swiftGenericConstraints = {}", esc(&it.decor.swift_generic_constraints.join(", "))));
    }
    if it.decor.redacted {
        tsargs.push("redacted".into());
    }
    if let Some(t) = &it.serialized_as {
        tsargs.push(format!("serialized_as = {}", esc(&t.rust())));
    }
    let ts_line = if !it.annotated {
        String::new()
    } else if tsargs.is_empty() {
        if it.layout & 16 == 16 {
            format!("{ind}#[typeshare::typeshare]\n")
        } else {
            format!("{ind}#[typeshare]\n")
        }
    } else {
        // rustfmt ends a multi-line argument list with a comma
        format!("{ind}#[typeshare({}{})]\n", tsargs.join(", "), if it.layout & 32 == 32 { "," } else { "" })
    };
    let mut serde: Vec<String> = vec![];
    let is_const_or_alias = matches!(it.kind, Kind::Alias { .. } | Kind::Const { .. });
    match &it.kind {
        Kind::Struct { rename_all, .. } => {
            if let Some(r) = rename_all {
                serde.push(format!("rename_all = {}", esc(r)));
            }
        }
        Kind::Enum { rename_all, tag, content, .. } => {
            if let Some(t) = tag {
                serde.push(format!("tag = {}", esc(t)));
            }
            if let Some(c) = content {
                serde.push(format!("content = {}", esc(c)));
            }
            if let Some(r) = rename_all {
                serde.push(format!("rename_all = {}", esc(r)));
            }
            if let Some(r) = &it.decoy_rename_all_fields {
                serde.push(format!("rename_all_fields = {}", esc(r)));
            }
        }
        _ => {}
    }
    if let Some(r) = &it.serde_rename {
        serde.push(format!("rename = {}", esc(r)));
    }
    let mut serde_lines = vec![];
    attr_lines("serde", &serde, it.layout, &ind, &mut serde_lines);
    let derive = if is_const_or_alias { String::new() } else { format!("{ind}#[derive(Serialize, Deserialize)]\n") };
    // three relative orders of typeshare / derive / serde
    let serde_s: String = serde_lines.concat();
    match (it.layout >> 5) % 3 {
        0 => {
            out.push_str(&ts_line);
            out.push_str(&derive);
            out.push_str(&serde_s);
        }
        1 => {
            out.push_str(&derive);
            out.push_str(&ts_line);
            out.push_str(&serde_s);
        }
        _ => {
            out.push_str(&derive);
            out.push_str(&serde_s);
            out.push_str(&ts_line);
        }
    }
    let g = generics_src(&it.generics);
    match &it.kind {
        Kind::Struct { shape, .. } => match shape {
            Shape::Named(fields) => {
                out.push_str(&format!("{ind}pub struct {}{} {{\n", it.name, g));
                for f in fields {
                    field_src(f, &ind1, "pub ", &mut out);
                }
                out.push_str(&format!("{ind}}}\n"));
            }
            Shape::Newtype(t) => out.push_str(&format!("{ind}pub struct {}{}(pub {});\n", it.name, g, t.rust())),
            Shape::Unit => out.push_str(&format!("{ind}pub struct {}{};\n", it.name, g)),
            Shape::Tuple(ts) => out.push_str(&format!(
                "{ind}pub struct {}{}({});\n",
                it.name,
                g,
                ts.iter().map(|t| format!("pub {}", t.rust())).collect::<Vec<_>>().join(", ")
            )),
        },
        Kind::Enum { variants, .. } => {
            out.push_str(&format!("{ind}pub enum {}{} {{\n", it.name, g));
            for v in variants {
                doc_lines(&v.docs, &ind1, &mut out);
                cfg_lines(&v.cfgs, &ind1, &mut out);
                let mut sa: Vec<String> = vec![];
                if let Some(r) = &v.rename {
                    sa.push(format!("rename = {}", esc(r)));
                }
                if let Payload::Struct { rename_all: Some(r), .. } = &v.payload {
                    sa.push(format!("rename_all = {}", esc(r)));
                }
                if v.skip == Skip::Serde {
                    sa.push("skip".into());
                }
                let mut lines = vec![];
                attr_lines("serde", &sa, v.layout, &ind1, &mut lines);
                if v.skip == Skip::Typeshare {
                    lines.push(format!("{ind1}#[typeshare(skip)]\n"));
                }
                if v.layout & 8 == 8 {
                    lines.reverse();
                }
                for l in lines {
                    out.push_str(&l);
                }
                match &v.payload {
                    Payload::Unit => out.push_str(&format!("{ind1}{},\n", v.name)),
                    Payload::Newtype(t) => out.push_str(&format!("{ind1}{}({}),\n", v.name, t.rust())),
                    Payload::Tuple(ts) => {
                        out.push_str(&format!("{ind1}{}({}),\n", v.name, ts.iter().map(|t| t.rust()).collect::<Vec<_>>().join(", ")))
                    }
                    Payload::Struct { fields, .. } => {
                        out.push_str(&format!("{ind1}{} {{\n", v.name));
                        for f in fields {
                            field_src(f, &ind2, "", &mut out);
                        }
                        out.push_str(&format!("{ind1}}},\n"));
                    }
                }
            }
            out.push_str(&format!("{ind}}}\n"));
        }
        Kind::Alias { ty } => out.push_str(&format!("{ind}pub type {}{} = {};\n", it.name, g, ty.rust())),
        Kind::Const { ty, expr } => out.push_str(&format!("{ind}pub const {}: {} = {};\n", it.name, ty.rust(), expr)),
    }
    for i in (0..depth).rev() {
        out.push_str(&format!("{}}}{}\n", "    ".repeat(i), if it.mod_path[i].starts_with("implfn:") { " }" } else { "" }));
    }
    out
}

pub fn file_src(f: &SrcFile) -> String {
    let mut out = String::new();
    for c in &f.inner_cfgs {
        out.push_str(&format!("#![cfg({})]\n", c.rust()));
    }
    for u in &f.uses {
        out.push_str(u);
        out.push('\n');
    }
    if !f.uses.is_empty() || !f.inner_cfgs.is_empty() {
        out.push('\n');
    }
    for it in &f.items {
        out.push_str(&item_src(it));
        out.push('\n');
    }
    out
}

pub fn items_src(items: &[Item]) -> String {
    let mut out = String::new();
    for it in items {
        out.push_str(&item_src(it));
        out.push('\n');
    }
    out
}

/// every type position of an item (fields, payloads, targets, const types), mutably
pub fn for_types_mut(it: &mut Item, f: &mut dyn FnMut(&mut Ty)) {
    match &mut it.kind {
        Kind::Struct { shape: Shape::Named(fs), .. } => fs.iter_mut().for_each(|x| f(&mut x.ty)),
        Kind::Struct { shape: Shape::Newtype(t), .. } => f(t),
        Kind::Enum { variants, .. } => {
            for v in variants.iter_mut() {
                match &mut v.payload {
                    Payload::Newtype(t) => f(t),
                    Payload::Struct { fields, .. } => fields.iter_mut().for_each(|x| f(&mut x.ty)),
                    _ => {}
                }
            }
        }
        Kind::Alias { ty } | Kind::Const { ty, .. } => f(ty),
        _ => {}
    }
}

impl Ty {
    /// post-order mutable traversal
    pub fn walk_mut(&mut self, f: &mut dyn FnMut(&mut Ty)) {
        match self {
            Ty::User { args, .. } => args.iter_mut().for_each(|a| a.walk_mut(f)),
            Ty::Vec(t) | Ty::Array(t, _) | Ty::Slice(t) | Ty::Opt(t) | Ty::Wrap(_, t) | Ty::Ref(t) | Ty::Qual(_, t) => t.walk_mut(f),
            Ty::Map(k, v) => {
                k.walk_mut(f);
                v.walk_mut(f)
            }
            Ty::Tuple(ts) => ts.iter_mut().for_each(|a| a.walk_mut(f)),
            _ => {}
        }
        f(self);
    }
}
