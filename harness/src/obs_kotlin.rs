//! Kotlin observer.
use crate::lex::{Tok, TokKind};
use crate::obs::*;

const HARD_KEYWORDS: &[&str] = &[
    "as", "break", "class", "continue", "do", "else", "false", "for", "fun", "if", "in", "interface", "is", "null", "object",
    "package", "return", "super", "this", "throw", "true", "try", "typealias", "typeof", "val", "var", "when", "while",
];

pub fn is_hard_keyword(s: &str) -> bool {
    HARD_KEYWORDS.contains(&s)
}

fn dotted(c: &mut Cur) -> PResult<String> {
    let mut s = c.ident()?.text.clone();
    while c.is_p(".") {
        c.next();
        s.push('.');
        s.push_str(&c.ident()?.text);
    }
    Ok(s)
}

struct Ann {
    name: String,
    arg: Option<String>,
}

fn annotations(c: &mut Cur) -> PResult<Vec<Ann>> {
    let mut out = vec![];
    while c.is_p("@") {
        c.next();
        let name = dotted(c)?;
        let mut arg = None;
        if c.is_p("(") && !c.peek().map(|t| t.nl_before).unwrap_or(false) {
            let inner = c.skip_group()?;
            if let Some(t) = inner.iter().find(|t| t.kind == TokKind::Str) {
                arg = Some(t.text.clone());
            }
        }
        out.push(Ann { name, arg });
    }
    Ok(out)
}

pub fn type_expr(c: &mut Cur) -> PResult<OTy> {
    let base = dotted(c)?;
    let mut args = vec![];
    if c.eat_p("<") {
        loop {
            args.push(type_expr(c)?);
            if !c.eat_p(",") {
                break;
            }
        }
        c.expect_p(">")?;
    }
    let mut t = match (base.as_str(), args.len()) {
        ("List", 1) | ("MutableList", 1) | ("ArrayList", 1) => OTy::Seq(Box::new(args.into_iter().next().unwrap())),
        ("HashMap", 2) | ("Map", 2) | ("MutableMap", 2) => {
            let mut it = args.into_iter();
            let k = it.next().unwrap();
            let v = it.next().unwrap();
            OTy::Map(Box::new(k), Box::new(v))
        }
        _ => OTy::Name { base, args },
    };
    while c.eat_p("?") {
        t = OTy::Opt(Box::new(t));
    }
    Ok(t)
}

fn generics_decl(c: &mut Cur) -> PResult<Vec<String>> {
    let mut g = vec![];
    if c.eat_p("<") {
        loop {
            g.push(c.ident()?.text.clone());
            if !c.eat_p(",") {
                break;
            }
        }
        c.expect_p(">")?;
    }
    Ok(g)
}

/// `( [annotations] [private] val name: Type [= expr] , ... )`
fn ctor_params(c: &mut Cur) -> PResult<Vec<OField>> {
    c.expect_p("(")?;
    let mut out = vec![];
    while !c.is_p(")") {
        if c.eof() {
            return c.err("unclosed `(`");
        }
        let anns = annotations(c)?;
        let mut f = OField::default();
        f.line = c.line();
        while c.is_id("private") || c.is_id("public") || c.is_id("internal") || c.is_id("override") {
            c.next();
        }
        if !(c.eat_id("val") || c.eat_id("var")) {
            return c.err("expected `val`");
        }
        let id = c.ident()?;
        f.ident = id.text.clone();
        f.escaped = id.escaped;
        f.key = f.ident.clone();
        for a in &anns {
            if a.name == "SerialName" {
                if let Some(v) = &a.arg {
                    f.key = v.clone();
                    f.bound = true;
                }
            }
        }
        c.expect_p(":")?;
        let start = c.i;
        let t = type_expr(c)?;
        f.ty_text = c.t[start..c.i].iter().map(|t| t.text.clone()).collect::<Vec<_>>().join("");
        if matches!(t, OTy::Opt(_)) {
            f.opt.push("?".into());
        }
        f.ty = Some(t);
        if c.eat_p("=") {
            match c.next() {
                Some(t) if t.is_id("null") => f.opt.push("= null".into()),
                Some(_) => f.opt.push("= <expr>".into()),
                None => return c.err("expected a default value"),
            }
        }
        out.push(f);
        if !c.eat_p(",") {
            break;
        }
    }
    c.expect_p(")")?;
    Ok(out)
}

pub fn parse(toks: &[Tok]) -> PResult<OFile> {
    let mut c = Cur::new(toks);
    let mut f = OFile::default();
    if c.is_id("package") {
        c.ctx = "package";
        c.next();
        f.package = Some(dotted(&mut c)?);
    }
    while c.is_id("import") {
        c.ctx = "import";
        if !c.at_line_start() {
            return c.err("import must start on a new line");
        }
        c.next();
        let path = dotted(&mut c)?;
        let (m, n) = path.rsplit_once('.').map(|(a, b)| (a.to_string(), b.to_string())).unwrap_or((String::new(), path.clone()));
        f.imports.push(OImport { module: m, names: vec![n] });
    }
    while !c.eof() {
        c.ctx = "top-level";
        if !c.at_line_start() {
            return c.err("declaration must start on a new line");
        }
        let anns = annotations(&mut c)?;
        let decorators: Vec<String> = anns.iter().map(|a| a.name.clone()).collect();
        if c.eat_id("typealias") {
            c.ctx = "typealias";
            let name = c.ident()?;
            let mut d = ODecl::new(OKind::Alias, &name.text, name.line);
            d.generics = generics_decl(&mut c)?;
            c.expect_p("=")?;
            d.target = Some(type_expr(&mut c)?);
            d.decorators = decorators;
            f.decls.push(d);
        } else if c.is_id("value") && c.is_id_at(1, "class") {
            c.ctx = "value class";
            c.next();
            c.next();
            let name = c.ident()?;
            let mut d = ODecl::new(OKind::Alias, &name.text, name.line);
            d.generics = generics_decl(&mut c)?;
            let ps = ctor_params(&mut c)?;
            if ps.len() != 1 {
                return c.err("value class needs exactly one parameter");
            }
            d.target = ps[0].ty.clone();
            d.decorators = decorators;
            if c.is_p("{") {
                c.skip_group()?;
            }
            f.decls.push(d);
        } else if c.eat_id("object") {
            c.ctx = "object";
            let name = c.ident()?;
            let mut d = ODecl::new(OKind::Struct, &name.text, name.line);
            d.decorators = decorators;
            f.decls.push(d);
        } else if c.is_id("data") && c.is_id_at(1, "class") {
            c.ctx = "data class";
            c.next();
            c.next();
            let name = c.ident()?;
            let mut d = ODecl::new(OKind::Struct, &name.text, name.line);
            d.generics = generics_decl(&mut c)?;
            d.fields = ctor_params(&mut c)?;
            if d.fields.is_empty() {
                return c.err("data class must have at least one parameter");
            }
            d.decorators = decorators;
            if c.is_p("{") {
                c.skip_group()?;
            }
            f.decls.push(d);
        } else if c.is_id("enum") && c.is_id_at(1, "class") {
            c.ctx = "enum class";
            c.next();
            c.next();
            let name = c.ident()?;
            let mut d = ODecl::new(OKind::UnitEnum, &name.text, name.line);
            d.generics = generics_decl(&mut c)?;
            d.decorators = decorators;
            let _ = ctor_params(&mut c)?;
            c.expect_p("{")?;
            while !c.is_p("}") {
                if c.eof() {
                    return c.err("unclosed enum body");
                }
                let anns = annotations(&mut c)?;
                let id = c.ident()?;
                let mut case = { let mut __c = OCase::new(&id.text, id.line); __c.wire = vec![]; __c };
                for a in &anns {
                    if a.name == "SerialName" {
                        if let Some(v) = &a.arg {
                            case.wire.push(("kotlin.SerialName".into(), v.clone()));
                        }
                    }
                }
                if c.is_p("(") {
                    let inner = c.skip_group()?;
                    if let Some(t) = inner.iter().find(|t| t.kind == TokKind::Str) {
                        case.wire.push(("kotlin.ctor-arg".into(), t.text.clone()));
                    }
                }
                d.cases.push(case);
                if !c.eat_p(",") {
                    c.eat_p(";");
                    break;
                }
                if c.eat_p(";") {
                    break;
                }
            }
            c.expect_p("}")?;
            f.decls.push(d);
        } else if c.is_id("sealed") && c.is_id_at(1, "class") {
            c.ctx = "sealed class";
            c.next();
            c.next();
            let name = c.ident()?;
            let mut d = ODecl::new(OKind::AlgEnum, &name.text, name.line);
            d.generics = generics_decl(&mut c)?;
            d.decorators = decorators;
            c.expect_p("{")?;
            while !c.is_p("}") {
                if c.eof() {
                    return c.err("unclosed sealed class body");
                }
                if !c.at_line_start() {
                    return c.err("nested declaration must start on a new line");
                }
                let anns = annotations(&mut c)?;
                let mut case = { let mut __c = OCase::new(&String::new(), c.line()); __c.wire = vec![]; __c };
                for a in &anns {
                    if a.name == "SerialName" {
                        if let Some(v) = &a.arg {
                            case.wire.push(("kotlin.SerialName".into(), v.clone()));
                        }
                    }
                }
                if c.eat_id("object") {
                    case.ident = c.ident()?.text.clone();
                } else if c.is_id("data") && c.is_id_at(1, "class") {
                    c.next();
                    c.next();
                    case.ident = c.ident()?.text.clone();
                    let _g = generics_decl(&mut c)?;
                    let ps = ctor_params(&mut c)?;
                    if ps.len() != 1 {
                        return c.err("variant class needs exactly one parameter");
                    }
                    case.content.push(("kotlin.param".into(), ps[0].ident.clone()));
                    case.payload = ps[0].ty.clone();
                    case.payload_optional = matches!(ps[0].ty, Some(OTy::Opt(_)));
                } else {
                    return c.err("expected `object` or `data class` inside a sealed class");
                }
                c.expect_p(":")?;
                let parent = type_expr(&mut c)?;
                c.expect_p("(")?;
                c.expect_p(")")?;
                case.parent = Some(parent);
                d.cases.push(case);
            }
            c.expect_p("}")?;
            f.decls.push(d);
        } else {
            return c.err("expected a declaration");
        }
    }
    Ok(f.finish())
}
