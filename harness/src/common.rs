//! Shared plumbing: tiers, seeds, evidence, known findings, the proptest driver, replay files.
use proptest::strategy::{Strategy, ValueTree};
use proptest::test_runner::{Config, RngSeed, TestCaseError, TestError, TestRunner};
use serde::{de::DeserializeOwned, Serialize};
use serde_json::{json, Value};
use std::collections::{BTreeMap, HashSet};
use std::fmt::Debug;
use std::hash::{Hash, Hasher};
use std::path::PathBuf;
use std::sync::atomic::{AtomicBool, AtomicU64, Ordering};
use std::sync::Mutex;
use std::time::Instant;

pub const VERIF: &str = "/verif";

#[derive(Clone, Copy, PartialEq, Eq, Debug)]
pub enum Tier {
    Quick,
    Thorough,
}
impl Tier {
    pub fn name(self) -> &'static str {
        match self {
            Tier::Quick => "quick",
            Tier::Thorough => "thorough",
        }
    }
    /// pick a work size by tier
    pub fn pick<T>(self, q: T, t: T) -> T {
        match self {
            Tier::Quick => q,
            Tier::Thorough => t,
        }
    }
}

pub fn fnv(parts: &[&[u8]]) -> u64 {
    let mut h: u64 = 0xcbf29ce484222325;
    for p in parts {
        for b in *p {
            h ^= *b as u64;
            h = h.wrapping_mul(0x100000001b3);
        }
        h ^= 0xff;
        h = h.wrapping_mul(0x100000001b3);
    }
    h
}
pub fn hash_of<T: Hash>(t: &T) -> u64 {
    let mut h = std::collections::hash_map::DefaultHasher::new();
    t.hash(&mut h);
    h.finish()
}

/// A violation of the property found on one case.
#[derive(Clone, Debug, Serialize)]
pub struct Violation {
    /// identifies call site + relation + trigger features (see DESIGN §5.3)
    pub sig: String,
    /// human readable: expected vs actual
    pub detail: String,
}
impl Violation {
    pub fn new(sig: impl Into<String>, detail: impl Into<String>) -> Self {
        Violation { sig: sig.into(), detail: detail.into() }
    }
}

#[derive(Clone, Debug)]
pub struct KnownFinding {
    pub sig: String,
    pub what: String,
}

pub fn load_known(prop: &str) -> Vec<KnownFinding> {
    let mut out = vec![];
    let txt = std::fs::read_to_string(format!("{VERIF}/KNOWN_FINDINGS.txt")).unwrap_or_default();
    for line in txt.lines() {
        let line = line.trim();
        if !line.starts_with("finding:") {
            continue;
        }
        let rest = line["finding:".len()..].trim();
        let (head, what) = match rest.split_once(" :: ") {
            Some((h, w)) => (h, w.to_string()),
            None => (rest, String::new()),
        };
        let mut p = None;
        let mut s = None;
        for tok in head.split_whitespace() {
            if let Some(v) = tok.strip_prefix("property=") {
                p = Some(v.to_string());
            }
            if let Some(v) = tok.strip_prefix("sig=") {
                s = Some(v.to_string());
            }
        }
        if let (Some(p), Some(s)) = (p, s) {
            if p == prop {
                out.push(KnownFinding { sig: s, what });
            }
        }
    }
    out
}

/// One run of one property's check.
pub struct Run {
    pub prop: &'static str,
    pub tier: Tier,
    pub seed: u64,
    pub start: Instant,
    pub strict: bool,
    known: Vec<KnownFinding>,
    known_set: HashSet<String>,
    pub evaluations: AtomicU64,
    nontrivial: Mutex<HashSet<u64>>,
    labels: Mutex<BTreeMap<String, u64>>,
    samples: Mutex<BTreeMap<String, Vec<Value>>>,
    known_hits: Mutex<BTreeMap<String, u64>>,
    violations: Mutex<Vec<(String, String, String)>>, // sig, detail, replay path
    found_sigs: Mutex<HashSet<String>>,
    extra: Mutex<BTreeMap<String, Value>>,
    assumptions: Mutex<Vec<String>>,
    rule: Mutex<String>,
    inconclusive: Mutex<Vec<String>>,
    exhaustive: AtomicBool,
}

impl Run {
    pub fn new(prop: &'static str, tier: Tier) -> Self {
        let seed = std::env::var("VERIF_SEED")
            .ok()
            .and_then(|s| s.trim().parse::<i128>().ok())
            .map(|v| v as u64)
            .unwrap_or(20260926);
        let known = load_known(prop);
        let known_set = known.iter().map(|k| k.sig.clone()).collect();
        Run {
            prop,
            tier,
            seed,
            start: Instant::now(),
            strict: false,
            known,
            known_set,
            evaluations: AtomicU64::new(0),
            nontrivial: Mutex::new(HashSet::new()),
            labels: Mutex::new(BTreeMap::new()),
            samples: Mutex::new(BTreeMap::new()),
            known_hits: Mutex::new(BTreeMap::new()),
            violations: Mutex::new(vec![]),
            found_sigs: Mutex::new(HashSet::new()),
            extra: Mutex::new(BTreeMap::new()),
            assumptions: Mutex::new(vec![]),
            rule: Mutex::new(String::new()),
            inconclusive: Mutex::new(vec![]),
            exhaustive: AtomicBool::new(false),
        }
    }
    pub fn is_known(&self, sig: &str) -> bool {
        self.known_set.contains(sig)
    }
    pub fn count_eval(&self, n: u64) {
        self.evaluations.fetch_add(n, Ordering::Relaxed);
    }
    pub fn nontrivial(&self, h: u64) {
        self.nontrivial.lock().unwrap().insert(h);
    }
    pub fn label(&self, l: &str) {
        *self.labels.lock().unwrap().entry(l.to_string()).or_insert(0) += 1;
    }
    pub fn label_n(&self, l: &str, n: u64) {
        *self.labels.lock().unwrap().entry(l.to_string()).or_insert(0) += n;
    }
    pub fn label_count(&self, l: &str) -> u64 {
        *self.labels.lock().unwrap().get(l).unwrap_or(&0)
    }
    /// keep up to `cap` samples per class
    pub fn sample(&self, class: &str, cap: usize, f: impl FnOnce() -> Value) {
        let mut s = self.samples.lock().unwrap();
        let e = s.entry(class.to_string()).or_default();
        if e.len() < cap {
            e.push(f());
        }
    }
    pub fn set_rule(&self, r: &str) {
        *self.rule.lock().unwrap() = r.to_string();
    }
    pub fn assume(&self, a: &str) {
        self.assumptions.lock().unwrap().push(a.to_string());
    }
    pub fn extra(&self, k: &str, v: Value) {
        self.extra.lock().unwrap().insert(k.to_string(), v);
    }
    pub fn set_exhaustive(&self, b: bool) {
        self.exhaustive.store(b, Ordering::Relaxed);
    }
    pub fn inconclusive(&self, why: &str) {
        self.inconclusive.lock().unwrap().push(why.to_string());
    }
    pub fn known_hit(&self, sig: &str) {
        *self.known_hits.lock().unwrap().entry(sig.to_string()).or_insert(0) += 1;
    }
    /// Partition violations of a case into (known, new). Known ones are counted.
    pub fn triage(&self, vs: Vec<Violation>, count: bool) -> Vec<Violation> {
        let mut new = vec![];
        for v in vs {
            if self.is_known(&v.sig) {
                if count {
                    self.known_hit(&v.sig);
                }
            } else {
                new.push(v);
            }
        }
        new
    }
    /// Record an unlisted violation with a replay file. Returns false if that signature was already recorded.
    pub fn record_violation(&self, check: &str, v: &Violation, case: Value, rendered: Value) -> bool {
        if !self.found_sigs.lock().unwrap().insert(v.sig.clone()) {
            return false;
        }
        let dir = format!("{VERIF}/replays/found/{}", self.prop);
        let _ = std::fs::create_dir_all(&dir);
        let h = fnv(&[v.sig.as_bytes(), check.as_bytes()]);
        let path = format!("{dir}/{check}-{h:016x}.json");
        let body = json!({
            "property": self.prop, "check": check, "sig": v.sig, "detail": v.detail,
            "seed": self.seed, "tier": self.tier.name(), "case": case, "rendered": rendered,
        });
        let _ = std::fs::write(&path, serde_json::to_string_pretty(&body).unwrap());
        println!("VIOLATION property={} replay={}", self.prop, path);
        println!("  sig={}", v.sig);
        for l in v.detail.lines().take(40) {
            println!("  | {l}");
        }
        self.violations.lock().unwrap().push((v.sig.clone(), v.detail.clone(), path));
        true
    }
    pub fn violation_count(&self) -> usize {
        self.violations.lock().unwrap().len()
    }

    /// Write the evidence file, print KNOWN-FINDING lines and return the exit code.
    pub fn finish(&self) -> i32 {
        let wall = self.start.elapsed().as_secs_f64();
        let hits = self.known_hits.lock().unwrap().clone();
        for k in &self.known {
            let n = hits.get(&k.sig).copied().unwrap_or(0);
            println!("KNOWN-FINDING: property={} sig={} hits={} {}", self.prop, k.sig, n, k.what);
        }
        let viol = self.violations.lock().unwrap();
        let samples: Vec<Value> = {
            let s = self.samples.lock().unwrap();
            let mut v = vec![];
            for (class, items) in s.iter() {
                for it in items {
                    v.push(json!({"class": class, "case": it}));
                }
            }
            v
        };
        let nontrivial = self.nontrivial.lock().unwrap().len() as u64;
        let evaluations = self.evaluations.load(Ordering::Relaxed);
        let incon = self.inconclusive.lock().unwrap().clone();
        let mut cov = serde_json::Map::new();
        cov.insert("evaluations".into(), json!(evaluations));
        cov.insert("distinct_nontrivial".into(), json!(nontrivial));
        cov.insert("rule".into(), json!(self.rule.lock().unwrap().clone()));
        cov.insert("samples".into(), Value::Array(samples));
        cov.insert("labels".into(), json!(self.labels.lock().unwrap().clone()));
        cov.insert("known_findings_hit".into(), json!(hits));
        cov.insert("exhaustive".into(), json!(self.exhaustive.load(Ordering::Relaxed)));
        if !incon.is_empty() {
            cov.insert("inconclusive".into(), json!(incon));
        }
        if !viol.is_empty() {
            cov.insert(
                "violation_list".into(),
                json!(viol.iter().map(|(s, d, p)| json!({"sig": s, "detail": d, "replay": p})).collect::<Vec<_>>()),
            );
        }
        for (k, v) in self.extra.lock().unwrap().iter() {
            cov.insert(k.clone(), v.clone());
        }
        let ev = json!({
            "property_id": self.prop,
            "tier": self.tier.name(),
            "seed": self.seed as i64,
            "level": "exploration",
            "coverage": Value::Object(cov),
            "assumptions": self.assumptions.lock().unwrap().clone(),
            "wall_s": wall,
            "violations": viol.len(),
        });
        let _ = std::fs::create_dir_all(format!("{VERIF}/evidence"));
        let path = format!("{VERIF}/evidence/{}.json", self.prop);
        std::fs::write(&path, serde_json::to_string_pretty(&ev).unwrap()).expect("write evidence");
        println!(
            "{} {}: evaluations={} distinct_nontrivial={} known_hits={} violations={} wall={:.1}s",
            self.prop,
            self.tier.name(),
            evaluations,
            nontrivial,
            hits.values().sum::<u64>(),
            viol.len(),
            wall
        );
        if !viol.is_empty() {
            1
        } else if !incon.is_empty() {
            for i in incon {
                println!("INCONCLUSIVE: {i}");
            }
            2
        } else {
            0
        }
    }
}

/// A generated-input check: a strategy, an evaluation, labels.
pub trait SubCheck: Sync {
    type Case: Serialize + DeserializeOwned + Debug + Clone + Send;
    fn name(&self) -> &'static str;
    fn strategy(&self, tier: Tier) -> proptest::strategy::BoxedStrategy<Self::Case>;
    /// Evaluate one case: returns all violations found on it. `counting` is false while shrinking.
    fn eval(&self, run: &Run, case: &Self::Case, w: &mut Worker, counting: bool) -> Vec<Violation>;
    /// rendered form for replay files / samples
    fn render(&self, case: &Self::Case) -> Value {
        serde_json::to_value(case).unwrap_or(Value::Null)
    }
    /// true when the evaluation runs typeshare inside this process: the case is published to the crash guard first
    fn crash_guard(&self) -> bool {
        false
    }
}

/// `check.eval` under the crash guard (see crash.rs)
pub fn guarded_eval<S: SubCheck>(run: &Run, check: &S, case: &S::Case, w: &mut Worker, counting: bool) -> Vec<Violation> {
    if !check.crash_guard() || std::env::var_os("VERIF_NO_CRASH_GUARD").is_some() {
        return check.eval(run, case, w, counting);
    }
    crate::crash::install(run.prop);
    let slot = if w.id < 100 { w.id } else { 100 };
    let file = serde_json::json!({
        "property": run.prop,
        "check": check.name(),
        "sig": "crash/fatal-signal-in-process",
        "detail": "typeshare brought the process down with a fatal signal (stack overflow / segfault / abort) while this case was evaluated in-process",
        "case": serde_json::to_value(case).unwrap_or(Value::Null),
        "rendered": check.render(case),
    });
    crate::crash::enter(slot, serde_json::to_string_pretty(&file).unwrap_or_default().as_bytes());
    let r = check.eval(run, case, w, counting);
    crate::crash::leave(slot);
    r
}

/// per-thread resources (python worker, scratch dir)
pub struct Worker {
    pub id: usize,
    pub py: Option<crate::py::PyWorker>,
    pub scratch: PathBuf,
    /// generate through the real binary instead of in-process (FactCheck CLI families)
    pub via_cli: bool,
}
impl Worker {
    pub fn new(prop: &str, id: usize) -> Worker {
        let scratch = PathBuf::from(format!("{VERIF}/work/{}-{}-{}", prop, std::process::id(), id));
        let _ = std::fs::remove_dir_all(&scratch);
        std::fs::create_dir_all(&scratch).expect("scratch");
        Worker { id, py: None, scratch, via_cli: false }
    }
    pub fn py(&mut self) -> &mut crate::py::PyWorker {
        if self.py.is_none() {
            self.py = Some(crate::py::PyWorker::spawn());
        }
        self.py.as_mut().unwrap()
    }
}
impl Drop for Worker {
    fn drop(&mut self) {
        let _ = std::fs::remove_dir_all(&self.scratch);
    }
}

pub fn threads() -> usize {
    std::env::var("VERIF_THREADS").ok().and_then(|s| s.parse().ok()).unwrap_or(8)
}

/// Drive `check` with proptest: `total_cases` spread over worker threads, seeds derived from VERIF_SEED.
pub fn search<S: SubCheck>(run: &Run, check: &S, total_cases: u32) {
    let n = threads().min(total_cases.max(1) as usize).max(1);
    let per = (total_cases as usize + n - 1) / n;
    std::thread::scope(|sc| {
        for k in 0..n {
            let run = &*run;
            let check = &*check;
            sc.spawn(move || {
                let mut w = Worker::new(run.prop, k);
                search_thread(run, check, per as u32, k, &mut w);
            });
        }
    });
}

fn search_thread<S: SubCheck>(run: &Run, check: &S, cases: u32, k: usize, w: &mut Worker) {
    let mut remaining = cases;
    let mut round = 0u32;
    let mut found_here = 0;
    while remaining > 0 && found_here < 4 {
        let seed = fnv(&[
            &run.seed.to_le_bytes(),
            run.prop.as_bytes(),
            check.name().as_bytes(),
            &(k as u64).to_le_bytes(),
            &round.to_le_bytes(),
        ]);
        let cfg = Config {
            cases: remaining,
            failure_persistence: None,
            rng_seed: RngSeed::Fixed(seed),
            max_shrink_iters: 300,
            max_global_rejects: 65536,
            max_local_rejects: 65536,
            ..Config::default()
        };
        let mut runner = TestRunner::new(cfg);
        let strat = check.strategy(run.tier);
        let failing = std::cell::Cell::new(false);
        let target: std::cell::RefCell<Option<String>> = std::cell::RefCell::new(None);
        let done = std::cell::Cell::new(0u32);
        let wcell = std::cell::RefCell::new(&mut *w);
        let res = runner.run(&strat, |case| {
            let counting = !failing.get();
            let mut wref = wcell.borrow_mut();
            let vs = guarded_eval(run, check, &case, &mut **wref, counting);
            if counting {
                run.count_eval(1);
                done.set(done.get() + 1);
            }
            let newv = run.triage(vs, counting);
            // exclude signatures already recorded this run so the search continues behind them
            let newv: Vec<Violation> =
                newv.into_iter().filter(|v| !run.found_sigs.lock().unwrap().contains(&v.sig)).collect();
            if counting {
                if let Some(v) = newv.first() {
                    failing.set(true);
                    *target.borrow_mut() = Some(v.sig.clone());
                    return Err(TestCaseError::fail(v.sig.clone()));
                }
                Ok(())
            } else {
                let t = target.borrow();
                if newv.iter().any(|v| Some(&v.sig) == t.as_ref()) {
                    Err(TestCaseError::fail(t.clone().unwrap()))
                } else {
                    Ok(())
                }
            }
        });
        drop(wcell);
        match res {
            Ok(()) => break,
            Err(TestError::Fail(_, min_case)) => {
                let t = target.borrow().clone().unwrap_or_default();
                // re-evaluate the shrunk case to get the detail text
                let vs = guarded_eval(run, check, &min_case, w, false);
                let v = vs
                    .iter()
                    .find(|v| v.sig == t)
                    .cloned()
                    .unwrap_or_else(|| Violation::new(t.clone(), "(violation did not reproduce on re-evaluation of the shrunk case)"));
                run.record_violation(
                    check.name(),
                    &v,
                    serde_json::to_value(&min_case).unwrap_or(Value::Null),
                    check.render(&min_case),
                );
                found_here += 1;
                remaining = remaining.saturating_sub(done.get().max(1));
                round += 1;
            }
            Err(TestError::Abort(why)) => {
                run.inconclusive(&format!("proptest aborted in {}: {}", check.name(), why));
                break;
            }
        }
    }
}

/// Generate `n` values from a strategy deterministically (no shrinking), for enumerations/samples.
pub fn sample_values<T: Debug>(strategy: &impl Strategy<Value = T>, seed: u64, n: usize) -> Vec<T> {
    let mut runner = TestRunner::new(Config {
        rng_seed: RngSeed::Fixed(seed),
        failure_persistence: None,
        ..Config::default()
    });
    (0..n).map(|_| strategy.new_tree(&mut runner).unwrap().current()).collect()
}

/// Replay a saved case through a sub-check's oracle (no generator). Returns violations not listed as known.
pub fn replay_case<S: SubCheck>(run: &Run, check: &S, case: &Value) -> Result<Vec<Violation>, String> {
    let c: S::Case = serde_json::from_value(case.clone()).map_err(|e| format!("cannot decode case: {e}"))?;
    let mut w = Worker::new(run.prop, 99);
    let vs = guarded_eval(run, check, &c, &mut w, true);
    run.count_eval(1);
    Ok(run.triage(vs, true))
}

/// Regression tier: replay every file in replays/regress/<prop>/ that belongs to `check`.
pub fn replay_regress<S: SubCheck>(run: &Run, check: &S) {
    let dir = format!("{VERIF}/replays/regress/{}", run.prop);
    let Ok(rd) = std::fs::read_dir(&dir) else { return };
    let mut files: Vec<_> = rd.flatten().map(|e| e.path()).filter(|p| p.extension().map(|e| e == "json").unwrap_or(false)).collect();
    files.sort();
    for f in files {
        let Ok(txt) = std::fs::read_to_string(&f) else { continue };
        let Ok(v) = serde_json::from_str::<Value>(&txt) else { continue };
        if v.get("check").and_then(|c| c.as_str()) != Some(check.name()) {
            continue;
        }
        match replay_case(run, check, &v["case"]) {
            Ok(newv) => {
                run.label("regress-replayed");
                for nv in newv {
                    run.record_violation(check.name(), &nv, v["case"].clone(), v["rendered"].clone());
                }
            }
            Err(e) => run.inconclusive(&format!("regress file {} unreadable: {e}", f.display())),
        }
    }
}
