use verif::*;

use common::*;

fn usage() -> ! {
    eprintln!("usage: verif <Cxx> <quick|thorough> | verif <Cxx> --replay <file> | verif selftest");
    std::process::exit(2)
}

fn prop_static(p: &str) -> &'static str {
    const ALL: [&str; 20] = [
        "C01", "C02", "C03", "C04", "C05", "C06", "C07", "C08", "C09", "C10", "C11", "C12", "C13", "C14", "C15", "C16",
        "C17", "C18", "C19", "C20",
    ];
    ALL.iter().copied().find(|x| *x == p).unwrap_or_else(|| usage())
}

fn main() {
    // panics inside typeshare are caught per case; keep the default hook quiet unless asked
    if std::env::var("VERIF_PANIC_TRACE").is_err() {
        std::panic::set_hook(Box::new(|_| {}));
    }
    let args: Vec<String> = std::env::args().skip(1).collect();
    if args.is_empty() {
        usage();
    }
    if args[0] == "selftest" {
        std::process::exit(selftest());
    }
    if args[0] == "warm-c19" {
        // compile the dependencies of the C19 batch crate once (serde_derive, syn, the typeshare lib ...)
        let run = Run::new("C19", Tier::Quick);
        let t: c19::Twin = serde_json::from_value(serde_json::json!({"items": [], "template": 0, "planted_error": false})).unwrap();
        let dir = std::path::PathBuf::from(format!("{VERIF}/work/c19-warm"));
        let _ = std::fs::create_dir_all(&dir);
        let v = c19::evaluate_batch(&run, &[t], &dir, false);
        let _ = std::fs::remove_dir_all(&dir);
        std::process::exit(if v.is_empty() { 0 } else { 2 });
    }
    if args[0] == "observe" && args.len() == 3 {
        std::process::exit(observe_cmd(&args[1], &args[2]));
    }
    if args.len() < 2 {
        usage();
    }
    let prop = prop_static(&args[0]);
    if args[1] == "--replay" {
        let file = args.get(2).unwrap_or_else(|| usage());
        std::process::exit(do_replay(prop, file));
    }
    let tier = match args[1].as_str() {
        "quick" => Tier::Quick,
        "thorough" => Tier::Thorough,
        _ => usage(),
    };
    let _ = std::fs::remove_dir_all(format!("{VERIF}/replays/found/{prop}"));
    let run = Run::new(prop, tier);
    match table(prop) {
        Some((r, _)) => r(&run),
        None => {
            eprintln!("{prop}: no check implemented");
            std::process::exit(2);
        }
    }
    std::process::exit(run.finish());
}

type RunFn = fn(&Run);
type ReplayFn = fn(&Run, &serde_json::Value) -> Result<Vec<Violation>, String>;
fn table(prop: &str) -> Option<(RunFn, ReplayFn)> {
    Some(match prop {
        "C01" => (props::c01_run, props::c01_replay),
        "C02" => (props::c02_run, props::c02_replay),
        "C03" => (props::c03_run, props::c03_replay),
        "C04" => (props::c04_run, props::c04_replay),
        "C05" => (props::c05_run, props::c05_replay),
        "C06" => (c06::run, c06::replay),
        "C07" => (c07::run, c07::replay),
        "C08" => (c08::run, c08::replay),
        "C09" => (props::c09_run, props::c09_replay),
        "C10" => (c10::run, c10::replay),
        "C11" => (props::c11_run, props::c11_replay),
        "C12" => (props::c12_run, props::c12_replay),
        "C13" => (c13::run, c13::replay),
        "C14" => (c14::run, c14::replay),
        "C15" => (c15::run, c15::replay),
        "C16" => (c16::run, c16::replay),
        "C17" => (c17::run, c17::replay),
        "C18" => (c18::run, c18::replay),
        "C19" => (c19::run, c19::replay),
        "C20" => (c20::run, c20::replay),
        _ => return None,
    })
}

fn do_replay(prop: &'static str, file: &str) -> i32 {
    let txt = match std::fs::read_to_string(file) {
        Ok(t) => t,
        Err(e) => {
            eprintln!("cannot read {file}: {e}");
            return 2;
        }
    };
    let v: serde_json::Value = match serde_json::from_str(&txt) {
        Ok(v) => v,
        Err(e) => {
            // not JSON: a raw libFuzzer artefact named fuzz-<target>-...
            let name = std::path::Path::new(file).file_name().map(|n| n.to_string_lossy().into_owned()).unwrap_or_default();
            for t in ["c07_total", "c13_cfg", "c15_docs", "c16_rename"] {
                if name.contains(t) {
                    let rc = fuzz::replay_artifact(t, file);
                    if rc == 1 {
                        println!("VIOLATION property={} replay={}", prop, file);
                    }
                    return rc;
                }
            }
            eprintln!("cannot parse {file}: {e}");
            return 2;
        }
    };
    let check = v.get("check").and_then(|c| c.as_str()).unwrap_or("").to_string();
    let run = Run::new(prop, Tier::Quick);
    let res = match table(prop) {
        Some((_, rp)) => rp(&run, &v["case"]),
        None => Err(format!("{prop}: no replay implemented")),
    };
    match res {
        Err(e) => {
            eprintln!("replay failed: {e}");
            2
        }
        Ok(newv) => {
            let mut code = 0;
            for nv in &newv {
                println!("VIOLATION property={} replay={}", prop, file);
                println!("  sig={}", nv.sig);
                for l in nv.detail.lines().take(40) {
                    println!("  | {l}");
                }
                code = 1;
            }
            if code == 0 {
                println!("replay of {file} ({check}): no unlisted violation");
            }
            code
        }
    }
}

fn selftest() -> i32 {
    // calibration: every snapshot output of the repository must be accepted by the observers
    let mut w = Worker::new("selftest", 0);
    let mut bad = 0;
    let mut n = 0;
    let root = "/repo/core/data/tests";
    let mut dirs: Vec<_> = std::fs::read_dir(root).map(|r| r.flatten().map(|e| e.path()).collect()).unwrap_or_default();
    dirs.sort();
    for d in dirs {
        for lang in ts::ALL_LANGS {
            let f = d.join(format!("output.{}", lang.ext()));
            let Ok(text) = std::fs::read_to_string(&f) else { continue };
            n += 1;
            if let Err(e) = observe::observe(lang, &text, &mut w, false) {
                bad += 1;
                println!("selftest: observer rejects {}: {}", f.display(), e.show());
            }
        }
    }
    println!("selftest: {n} snapshot outputs observed, {bad} rejected");
    // known-bad snapshot outputs (examined by hand, see DESIGN §9) are tolerated up to the recorded number
    let allowed = std::fs::read_to_string(format!("{VERIF}/tools/calibration_rejects.txt")).map(|s| s.lines().filter(|l| !l.trim().is_empty() && !l.starts_with('#')).count()).unwrap_or(0);
    if bad > allowed {
        return 2;
    }
    0
}

fn observe_cmd(lang: &str, file: &str) -> i32 {
    let Some(lang) = ts::Lang::from_name(lang) else { return 2 };
    let text = std::fs::read_to_string(file).expect("read");
    let mut w = Worker::new("observe", 0);
    match observe::observe(lang, &text, &mut w, true) {
        Ok(o) => {
            println!("{}", serde_json::to_string_pretty(&o.file).unwrap());
            if let Some(p) = o.py {
                println!("exec_error: {:?}", p.exec_error);
            }
            0
        }
        Err(e) => {
            println!("REJECTED: {}", e.show());
            1
        }
    }
}
