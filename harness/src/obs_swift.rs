//! Swift observer.
use crate::lex::{Tok, TokKind};
use crate::obs::*;

/// Reserved words that cannot be used as identifiers without back-ticks (The Swift Programming Language, Lexical Structure:
/// keywords used in declarations, statements, expressions and types).
pub const KEYWORDS: &[&str] = &[
    "associatedtype", "class", "deinit", "enum", "extension", "fileprivate", "func", "import", "init", "inout", "internal", "let",
    "open", "operator", "private", "precedencegroup", "protocol", "public", "rethrows", "static", "struct", "subscript",
    "typealias", "var", "break", "case", "catch", "continue", "default", "defer", "do", "else", "fallthrough", "for", "guard",
    "if", "in", "repeat", "return", "throw", "switch", "where", "while", "Any", "as", "await", "false", "is", "nil", "self",
    "Self", "super", "throws", "true", "try",
];
// `open`, `precedencegroup`, `await` are contextual in practice; keep the check to the strict subset
pub fn is_keyword(s: &str) -> bool {
    KEYWORDS.contains(&s) && !matches!(s, "open" | "precedencegroup" | "await")
}

fn decl_ident<'a>(c: &mut Cur<'a>, what: &str) -> PResult<&'a Tok> {
    let t = c.ident()?;
    if !t.escaped && is_keyword(&t.text) {
        c.i -= 1;
        return Err(GrammarError { construct: format!("bare-keyword:{}", what.replace(' ', "-")), msg: format!("Swift keyword `{}` used as {what} without back-ticks", t.text), line: t.line });
    }
    Ok(t)
}

pub fn type_expr(c: &mut Cur) -> PResult<OTy> {
    let mut t = if c.eat_p("[") {
        let a = type_expr(c)?;
        if c.eat_p(":") {
            let b = type_expr(c)?;
            c.expect_p("]")?;
            OTy::Map(Box::new(a), Box::new(b))
        } else {
            c.expect_p("]")?;
            OTy::Seq(Box::new(a))
        }
    } else if c.is_p("(") {
        // tuple / parenthesised type: not produced by typeshare
        c.skip_group()?;
        OTy::Other("tuple".into())
    } else {
        let first = c.ident()?;
        if !first.escaped && is_keyword(&first.text) && first.text != "Any" && first.text != "Self" {
            c.i -= 1;
            return Err(GrammarError { construct: "bare-keyword:type-reference".into(), msg: format!("Swift keyword `{}` used as a type name without back-ticks", first.text), line: first.line });
        }
        let mut base = first.text.clone();
        while c.is_p(".") {
            c.next();
            base.push('.');
            base.push_str(&c.ident()?.text);
        }
        let mut args = vec![];
        if c.is_p("<") && !c.peek().map(|t| t.nl_before).unwrap_or(false) {
            c.next();
            loop {
                args.push(type_expr(c)?);
                if !c.eat_p(",") {
                    break;
                }
            }
            c.expect_p(">")?;
        }
        match (base.as_str(), args.len()) {
            ("Array", 1) => OTy::Seq(Box::new(args.into_iter().next().unwrap())),
            ("Dictionary", 2) => {
                let mut it = args.into_iter();
                let k = it.next().unwrap();
                OTy::Map(Box::new(k), Box::new(it.next().unwrap()))
            }
            ("Optional", 1) => OTy::Opt(Box::new(args.into_iter().next().unwrap())),
            _ => OTy::Name { base, args },
        }
    };
    while c.is_p("?") && !c.peek().map(|t| t.nl_before).unwrap_or(false) {
        c.next();
        t = OTy::Opt(Box::new(t));
    }
    Ok(t)
}

/// `<T: A & B, U>` -> names
fn generics_decl(c: &mut Cur) -> PResult<(Vec<String>, Vec<(String, Vec<String>)>)> {
    let mut g = vec![];
    let mut cons = vec![];
    if c.eat_p("<") {
        loop {
            let n = c.ident()?.text.clone();
            let mut cs = vec![];
            if c.eat_p(":") {
                loop {
                    match type_expr(c)? {
                        OTy::Name { base, .. } => cs.push(base),
                        other => cs.push(other.show()),
                    }
                    if !c.eat_p("&") {
                        break;
                    }
                }
            }
            g.push(n.clone());
            cons.push((n, cs));
            if !c.eat_p(",") {
                break;
            }
        }
        c.expect_p(">")?;
    }
    Ok((g, cons))
}

fn inheritance(c: &mut Cur) -> PResult<Vec<String>> {
    let mut out = vec![];
    if c.eat_p(":") {
        loop {
            match type_expr(c)? {
                OTy::Name { base, .. } => out.push(base),
                other => out.push(other.show()),
            }
            if !c.eat_p(",") {
                break;
            }
        }
    }
    Ok(out)
}

/// `enum CodingKeys: String, CodingKey, Codable { case a = "k", b, c }` -> [(case, raw value, explicit)]
fn coding_keys_body(c: &mut Cur, what: &str) -> PResult<Vec<(String, String, bool)>> {
    c.expect_p("{")?;
    let mut out = vec![];
    while !c.is_p("}") {
        if c.eof() {
            return c.err("unclosed CodingKeys");
        }
        c.expect_id("case")?;
        loop {
            let id = decl_ident(c, what)?;
            if c.eat_p("=") {
                let v = c.string()?;
                out.push((id.text.clone(), v.text.clone(), true));
            } else {
                out.push((id.text.clone(), id.text.clone(), false));
            }
            if !c.eat_p(",") {
                break;
            }
        }
    }
    c.expect_p("}")?;
    Ok(out)
}

/// split a `switch` body into arms: (case label tokens, arm tokens)
fn switch_arms<'a>(body: &'a [Tok]) -> Vec<(&'a [Tok], &'a [Tok])> {
    // find `switch` ... `{`, then arms start with `case` at depth 1 of that brace
    let mut arms = vec![];
    let Some(sw) = body.iter().position(|t| t.is_id("switch")) else { return arms };
    let Some(open_rel) = body[sw..].iter().position(|t| t.is_p("{")) else { return arms };
    let open = sw + open_rel;
    let mut depth = 0i32;
    let mut i = open;
    let mut cur_label: Option<(usize, usize)> = None;
    let mut arm_start = 0usize;
    while i < body.len() {
        let t = &body[i];
        if t.is_p("{") || t.is_p("(") || t.is_p("[") {
            depth += 1;
        } else if t.is_p("}") || t.is_p(")") || t.is_p("]") {
            depth -= 1;
            if depth == 0 {
                if let Some((ls, le)) = cur_label {
                    arms.push((&body[ls..le], &body[arm_start..i]));
                }
                break;
            }
        } else if depth == 1 && (t.is_id("case") || t.is_id("default")) && !(i > 0 && body[i - 1].is_p(".")) && !t.escaped {
            if let Some((ls, le)) = cur_label {
                arms.push((&body[ls..le], &body[arm_start..i]));
            }
            // label runs to the `:` at depth 1
            let mut j = i + 1;
            let mut d2 = 0i32;
            while j < body.len() {
                if body[j].is_p("(") {
                    d2 += 1;
                } else if body[j].is_p(")") {
                    d2 -= 1;
                } else if body[j].is_p(":") && d2 == 0 {
                    break;
                }
                j += 1;
            }
            cur_label = Some((i + 1, j));
            arm_start = j + 1;
            i = j;
        }
        i += 1;
    }
    arms
}

fn for_keys(toks: &[Tok]) -> Vec<String> {
    let mut out = vec![];
    for w in toks.windows(4) {
        if w[0].is_id("forKey") && w[1].is_p(":") && w[2].is_p(".") && w[3].kind == TokKind::Ident {
            out.push(w[3].text.clone());
        }
    }
    out
}

fn label_case_name(label: &[Tok]) -> Option<String> {
    // `.name` or `.name(let content)`
    if label.len() >= 2 && label[0].is_p(".") && label[1].kind == TokKind::Ident {
        Some(label[1].text.clone())
    } else {
        None
    }
}

pub fn parse(toks: &[Tok]) -> PResult<OFile> {
    let mut c = Cur::new(toks);
    let mut f = OFile::default();
    while !c.eof() {
        c.ctx = "top-level";
        if !c.at_line_start() {
            return c.err("declaration must start on a new line");
        }
        if c.eat_id("import") {
            let m = c.ident()?.text.clone();
            f.imports.push(OImport { module: m, names: vec![] });
            continue;
        }
        c.eat_id("public");
        if c.eat_id("typealias") {
            c.ctx = "typealias";
            let name = decl_ident(&mut c, "type name")?;
            let mut d = ODecl::new(OKind::Alias, &name.text, name.line);
            d.escaped = name.escaped;
            d.generics = generics_decl(&mut c)?.0;
            c.expect_p("=")?;
            d.target = Some(type_expr(&mut c)?);
            f.decls.push(d);
        } else if c.eat_id("struct") {
            c.ctx = "struct";
            let name = decl_ident(&mut c, "type name")?;
            let mut d = ODecl::new(OKind::Struct, &name.text, name.line);
            d.escaped = name.escaped;
            let (g, cons) = generics_decl(&mut c)?;
            d.generics = g;
            for (n, cs) in cons {
                d.facts.push((format!("constraint:{n}"), cs.join("&")));
            }
            d.decorators = inheritance(&mut c)?;
            c.expect_p("{")?;
            let mut keys: Option<Vec<(String, String, bool)>> = None;
            let mut init_params: Option<Vec<(String, OTy)>> = None;
            while !c.is_p("}") {
                if c.eof() {
                    return c.err("unclosed struct body");
                }
                if !c.at_line_start() {
                    return c.err("member must start on a new line");
                }
                while c.is_id("public") || c.is_id("private") || c.is_id("internal") || c.is_id("fileprivate") {
                    c.next();
                }
                if c.eat_id("let") || c.eat_id("var") {
                    let id = decl_ident(&mut c, "property name")?;
                    let mut fl = OField::default();
                    fl.ident = id.text.clone();
                    fl.escaped = id.escaped;
                    fl.key = fl.ident.clone();
                    fl.line = id.line;
                    c.expect_p(":")?;
                    let start = c.i;
                    let t = type_expr(&mut c)?;
                    fl.ty_text = c.t[start..c.i].iter().map(|t| t.text.clone()).collect::<Vec<_>>().join("");
                    if matches!(t, OTy::Opt(_)) {
                        fl.opt.push("?".into());
                    }
                    fl.ty = Some(t);
                    d.fields.push(fl);
                } else if c.is_id("enum") && c.is_id_at(1, "CodingKeys") {
                    c.next();
                    c.next();
                    let _ = inheritance(&mut c)?;
                    keys = Some(coding_keys_body(&mut c, "CodingKeys case")?);
                } else if c.eat_id("init") {
                    c.expect_p("(")?;
                    let mut ps = vec![];
                    while !c.is_p(")") {
                        let label = c.ident()?.text.clone();
                        // optional second (internal) name
                        if !c.is_p(":") {
                            c.ident()?;
                        }
                        c.expect_p(":")?;
                        let t = type_expr(&mut c)?;
                        ps.push((label, t));
                        if !c.eat_p(",") {
                            break;
                        }
                    }
                    c.expect_p(")")?;
                    if c.is_id("throws") {
                        c.next();
                    }
                    let body = c.skip_group()?;
                    // assignments `self.x = y`
                    let n_assign = body.windows(3).filter(|w| w[0].is_id("self") && w[1].is_p(".") && w[2].kind == TokKind::Ident).count();
                    d.facts.push(("init-assignments".into(), n_assign.to_string()));
                    init_params = Some(ps);
                } else {
                    return c.err("unexpected struct member");
                }
            }
            c.expect_p("}")?;
            if let Some(k) = &keys {
                d.facts.push(("CodingKeys".into(), k.len().to_string()));
                for fl in d.fields.iter_mut() {
                    if let Some((_, v, explicit)) = k.iter().find(|(n, _, _)| *n == fl.ident) {
                        fl.key = v.clone();
                        fl.bound = *explicit;
                    } else {
                        d.facts.push(("CodingKeys-missing".into(), fl.ident.clone()));
                    }
                }
            }
            if let Some(ps) = &init_params {
                d.facts.push(("init-params".into(), ps.len().to_string()));
                for fl in d.fields.iter_mut() {
                    if let Some((_, t)) = ps.iter().find(|(n, _)| *n == fl.ident) {
                        if matches!(t, OTy::Opt(_)) {
                            fl.opt.push("init?".into());
                        }
                        d.refs.push((format!("init-param:{}", fl.ident), t.clone()));
                    }
                }
            }
            if d.name == "CodableVoid" {
                f.helper_defs.push(d.name.clone());
            } else {
                f.decls.push(d);
            }
        } else if c.is_id("enum") || (c.is_id("indirect") && c.is_id_at(1, "enum")) {
            c.ctx = "enum";
            let indirect = c.eat_id("indirect");
            c.expect_id("enum")?;
            let name = decl_ident(&mut c, "type name")?;
            let mut d = ODecl::new(OKind::UnitEnum, &name.text, name.line);
            d.escaped = name.escaped;
            if indirect {
                d.facts.push(("indirect".into(), "1".into()));
            }
            let (g, cons) = generics_decl(&mut c)?;
            d.generics = g;
            for (n, cs) in cons {
                d.facts.push((format!("constraint:{n}"), cs.join("&")));
            }
            d.decorators = inheritance(&mut c)?;
            c.expect_p("{")?;
            let mut keys: Option<Vec<(String, String, bool)>> = None;
            let mut container: Option<Vec<String>> = None;
            let mut decode: Option<&[Tok]> = None;
            let mut encode: Option<&[Tok]> = None;
            while !c.is_p("}") {
                if c.eof() {
                    return c.err("unclosed enum body");
                }
                if !c.at_line_start() {
                    return c.err("member must start on a new line");
                }
                while c.is_id("public") || c.is_id("private") || c.is_id("internal") || c.is_id("fileprivate") {
                    c.next();
                }
                if c.eat_id("case") {
                    let id = decl_ident(&mut c, "case name")?;
                    let mut case = OCase::new(&id.text, id.line);
                    case.escaped = id.escaped;
                    if c.is_p("(") && !c.peek().map(|t| t.nl_before).unwrap_or(false) {
                        c.next();
                        let t = type_expr(&mut c)?;
                        c.expect_p(")")?;
                        case.payload_optional = matches!(t, OTy::Opt(_));
                        case.payload = Some(t);
                    } else if c.eat_p("=") {
                        let v = c.string()?;
                        case.wire.push(("swift.raw-value".into(), v.text.clone()));
                    }
                    d.cases.push(case);
                } else if c.is_id("enum") && c.is_id_at(1, "CodingKeys") {
                    c.next();
                    c.next();
                    let _ = inheritance(&mut c)?;
                    keys = Some(coding_keys_body(&mut c, "CodingKeys case")?);
                } else if c.is_id("enum") && c.is_id_at(1, "ContainerCodingKeys") {
                    c.next();
                    c.next();
                    let _ = inheritance(&mut c)?;
                    let k = coding_keys_body(&mut c, "ContainerCodingKeys case")?;
                    container = Some(k.into_iter().map(|(_, v, _)| v).collect());
                } else if c.eat_id("init") {
                    c.skip_group()?; // (from decoder: Decoder)
                    c.eat_id("throws");
                    decode = Some(c.skip_group()?);
                } else if c.eat_id("func") {
                    let fname = c.ident()?.text.clone();
                    c.skip_group()?;
                    c.eat_id("throws");
                    let body = c.skip_group()?;
                    if fname == "encode" {
                        encode = Some(body);
                    }
                } else {
                    return c.err("unexpected enum member");
                }
            }
            c.expect_p("}")?;
            let has_payload = d.cases.iter().any(|c| c.payload.is_some());
            if container.is_some() || has_payload || keys.is_some() {
                d.kind = OKind::AlgEnum;
            }
            if d.kind == OKind::UnitEnum {
                for case in d.cases.iter_mut() {
                    if case.wire.is_empty() {
                        case.wire.push(("swift.case-name".into(), case.ident.clone()));
                    }
                }
            } else {
                if let Some(k) = &keys {
                    d.facts.push(("CodingKeys".into(), k.len().to_string()));
                    for case in d.cases.iter_mut() {
                        let n = k.iter().filter(|(n, _, _)| *n == case.ident).count();
                        case.facts.push(("CodingKeys-entries".into(), n.to_string()));
                        if let Some((_, v, _)) = k.iter().find(|(n, _, _)| *n == case.ident) {
                            case.wire.push(("swift.CodingKeys".into(), v.clone()));
                        }
                    }
                    for (n, _, _) in k {
                        if !d.cases.iter().any(|c| c.ident == *n) {
                            d.facts.push(("CodingKeys-extra".into(), n.clone()));
                        }
                    }
                } else {
                    d.facts.push(("CodingKeys".into(), "absent".into()));
                }
                if let Some(k) = &container {
                    d.facts.push(("ContainerCodingKeys".into(), k.join(",")));
                    if k.len() == 2 {
                        d.tag.push(("swift.ContainerCodingKeys".into(), k[0].clone()));
                        d.content.push(("swift.ContainerCodingKeys".into(), k[1].clone()));
                    }
                }
                if let Some(body) = decode {
                    // discriminator key: first forKey before the switch
                    let sw = body.iter().position(|t| t.is_id("switch")).unwrap_or(body.len());
                    for k in for_keys(&body[..sw]) {
                        d.tag.push(("swift.decode.discriminator".into(), k));
                    }
                    let arms = switch_arms(body);
                    for case in d.cases.iter_mut() {
                        let mine: Vec<_> = arms.iter().filter(|(l, _)| label_case_name(l).as_deref() == Some(case.ident.as_str())).collect();
                        case.facts.push(("decode-arms".into(), mine.len().to_string()));
                        for (_, arm) in mine {
                            for k in for_keys(arm) {
                                case.content.push(("swift.decode-arm".into(), k));
                            }
                            // `self = .name`
                            for w in arm.windows(4) {
                                if w[0].is_id("self") && w[1].is_p("=") && w[2].is_p(".") && w[3].kind == TokKind::Ident {
                                    case.facts.push(("decode-assigns".into(), w[3].text.clone()));
                                }
                            }
                            // `decode(T.self, ...)`: decoded type text
                            for (i, t) in arm.iter().enumerate() {
                                if t.is_id("decode") && arm.get(i + 1).map(|x| x.is_p("(")).unwrap_or(false) {
                                    let mut sub = Cur::new(&arm[i + 2..]);
                                    if let Ok(ty) = type_expr(&mut sub) {
                                        // strip trailing `.self`
                                        let ty = match ty {
                                            OTy::Name { base, args } if base.ends_with(".self") => OTy::Name { base: base[..base.len() - 5].to_string(), args },
                                            o => o,
                                        };
                                        d.refs.push((format!("decode-type:{}", case.ident), ty));
                                    }
                                }
                            }
                        }
                    }
                    for (l, _) in &arms {
                        if let Some(n) = label_case_name(l) {
                            if !d.cases.iter().any(|c| c.ident == n) {
                                d.facts.push(("decode-arm-extra".into(), n));
                            }
                        }
                    }
                } else {
                    d.facts.push(("decode".into(), "absent".into()));
                }
                if let Some(body) = encode {
                    let arms = switch_arms(body);
                    for case in d.cases.iter_mut() {
                        let mine: Vec<_> = arms.iter().filter(|(l, _)| label_case_name(l).as_deref() == Some(case.ident.as_str())).collect();
                        case.facts.push(("encode-arms".into(), mine.len().to_string()));
                        for (_, arm) in mine {
                            // encode(CodingKeys.x, forKey: .tag) ; encode(content, forKey: .content)
                            let mut i = 0;
                            while i < arm.len() {
                                if arm[i].is_id("encode") && arm.get(i + 1).map(|x| x.is_p("(")).unwrap_or(false) {
                                    // tokens of this call
                                    let mut depth = 0;
                                    let mut j = i + 1;
                                    while j < arm.len() {
                                        if arm[j].is_p("(") {
                                            depth += 1;
                                        } else if arm[j].is_p(")") {
                                            depth -= 1;
                                            if depth == 0 {
                                                break;
                                            }
                                        }
                                        j += 1;
                                    }
                                    let call = &arm[i + 2..j.min(arm.len())];
                                    let keys = for_keys(call);
                                    let is_tag = call.first().map(|t| t.is_id("CodingKeys")).unwrap_or(false);
                                    if is_tag {
                                        if call.len() >= 3 && call[1].is_p(".") {
                                            case.facts.push(("encode-codingkey".into(), call[2].text.clone()));
                                        }
                                        for k in keys {
                                            case.tag.push(("swift.encode-arm".into(), k));
                                        }
                                    } else {
                                        for k in keys {
                                            case.content.push(("swift.encode-arm".into(), k));
                                        }
                                    }
                                    i = j;
                                }
                                i += 1;
                            }
                        }
                    }
                    for (l, _) in &arms {
                        if let Some(n) = label_case_name(l) {
                            if !d.cases.iter().any(|c| c.ident == n) {
                                d.facts.push(("encode-arm-extra".into(), n));
                            }
                        }
                    }
                } else {
                    d.facts.push(("encode".into(), "absent".into()));
                }
            }
            f.decls.push(d);
        } else {
            return c.err("expected a declaration");
        }
    }
    Ok(f.finish())
}
