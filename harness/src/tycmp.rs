//! Expected translation of type expressions (C05) and the per-language primitive tables (facts about the target
//! languages, not about typeshare).
use crate::model::*;
use crate::obs::OTy;
use crate::prog::norm;
use crate::ts::{Cfg, Lang};

#[derive(Clone, Copy, PartialEq, Eq, Debug)]
pub enum Cat {
    Int,
    Float,
    Bool,
    Str,
    Unit,
    /// TS `number`: integers and floats
    Num,
}

/// (category, min, max) of a Rust primitive; floats carry their bit width in `max`
pub fn rust_prim(p: Prim) -> (Cat, i128, i128) {
    const L: i128 = (1 << 53) - 1;
    match p {
        Prim::Bool => (Cat::Bool, 0, 1),
        Prim::Char | Prim::String | Prim::Str => (Cat::Str, 0, 0),
        Prim::I8 => (Cat::Int, i8::MIN as i128, i8::MAX as i128),
        Prim::I16 => (Cat::Int, i16::MIN as i128, i16::MAX as i128),
        Prim::I32 => (Cat::Int, i32::MIN as i128, i32::MAX as i128),
        Prim::U8 => (Cat::Int, 0, u8::MAX as i128),
        Prim::U16 => (Cat::Int, 0, u16::MAX as i128),
        Prim::U32 => (Cat::Int, 0, u32::MAX as i128),
        Prim::I54 => (Cat::Int, -L, L),
        Prim::U53 => (Cat::Int, 0, L),
        Prim::F32 => (Cat::Float, 0, 32),
        Prim::F64 => (Cat::Float, 0, 64),
        Prim::Unit => (Cat::Unit, 0, 0),
    }
}

/// what a target-language type name can hold: (category, min, max); None = not a primitive of that language
pub fn target_prim(lang: Lang, name: &str) -> Option<(Cat, i128, i128)> {
    let i = |bits: u32| (Cat::Int, -(1i128 << (bits - 1)), (1i128 << (bits - 1)) - 1);
    let u = |bits: u32| (Cat::Int, 0i128, (1i128 << bits) - 1);
    Some(match lang {
        Lang::TypeScript => match name {
            "number" => (Cat::Num, -((1i128 << 53) - 1), (1i128 << 53) - 1),
            "string" => (Cat::Str, 0, 0),
            "boolean" => (Cat::Bool, 0, 1),
            "undefined" | "null" | "void" => (Cat::Unit, 0, 0),
            "bigint" => (Cat::Int, i128::MIN, i128::MAX),
            _ => return None,
        },
        Lang::Kotlin => match name {
            "Byte" => i(8),
            "Short" => i(16),
            "Int" => i(32),
            "Long" => i(64),
            "UByte" => u(8),
            "UShort" => u(16),
            "UInt" => u(32),
            "ULong" => u(64),
            "Float" => (Cat::Float, 0, 32),
            "Double" => (Cat::Float, 0, 64),
            "Boolean" => (Cat::Bool, 0, 1),
            "String" => (Cat::Str, 0, 0),
            "Unit" => (Cat::Unit, 0, 0),
            _ => return None,
        },
        Lang::Swift => match name {
            "Int8" => i(8),
            "Int16" => i(16),
            "Int32" => i(32),
            "Int64" | "Int" => i(64),
            "UInt8" => u(8),
            "UInt16" => u(16),
            "UInt32" => u(32),
            "UInt64" | "UInt" => u(64),
            "Float" => (Cat::Float, 0, 32),
            "Double" => (Cat::Float, 0, 64),
            "Bool" => (Cat::Bool, 0, 1),
            "String" | "Character" | "Unicode.Scalar" => (Cat::Str, 0, 0),
            "CodableVoid" => (Cat::Unit, 0, 0),
            _ => return None,
        },
        Lang::Scala => match name {
            "Byte" => i(8),
            "Short" => i(16),
            "Int" => i(32),
            "Long" => i(64),
            "Float" => (Cat::Float, 0, 32),
            "Double" => (Cat::Float, 0, 64),
            "Boolean" => (Cat::Bool, 0, 1),
            "String" => (Cat::Str, 0, 0),
            "Unit" => (Cat::Unit, 0, 0),
            _ => return None,
        },
        Lang::Go => match name {
            // Go's `int`/`uint` are at least 32 bits wide (spec): only that is guaranteed
            "int" => i(32),
            "uint" => u(32),
            "int8" => i(8),
            "int16" => i(16),
            "int32" | "rune" => i(32),
            "int64" => i(64),
            "uint8" | "byte" => u(8),
            "uint16" => u(16),
            "uint32" => u(32),
            "uint64" => u(64),
            "float32" => (Cat::Float, 0, 32),
            "float64" => (Cat::Float, 0, 64),
            "bool" => (Cat::Bool, 0, 1),
            "string" => (Cat::Str, 0, 0),
            "struct{}" => (Cat::Unit, 0, 0),
            _ => return None,
        },
        Lang::Python => match name {
            "int" => (Cat::Int, i128::MIN, i128::MAX),
            "float" => (Cat::Float, 0, 64),
            "bool" => (Cat::Bool, 0, 1),
            "str" => (Cat::Str, 0, 0),
            "None" => (Cat::Unit, 0, 0),
            _ => return None,
        },
    })
}

pub fn prim_ok(lang: Lang, p: Prim, target: &str, scala_aliases: &[(String, String)]) -> Result<(), String> {
    // Scala: resolve the unsigned aliases typeshare defines in the same file
    let mut resolved = target.to_string();
    let mut via = String::new();
    if lang == Lang::Scala {
        if let Some((_, t)) = scala_aliases.iter().find(|(a, _)| a == target) {
            via = format!("{target}=");
            resolved = t.clone();
        }
    }
    let (rc, rmin, rmax) = rust_prim(p);
    let Some((tc, tmin, tmax)) = target_prim(lang, &resolved) else {
        return Err(format!("unknown-target:{}->{}{}", p.rust(), via, resolved));
    };
    let cat_ok = rc == tc || (tc == Cat::Num && (rc == Cat::Int || rc == Cat::Float));
    if !cat_ok {
        return Err(format!("category:{}->{}{}", p.rust(), via, resolved));
    }
    let cap_ok = match rc {
        Cat::Int => tmin <= rmin && tmax >= rmax,
        Cat::Float => tc == Cat::Num || tmax >= rmax,
        _ => true,
    };
    if !cap_ok {
        return Err(format!("capacity:{}->{}{}", p.rust(), via, resolved));
    }
    Ok(())
}

pub struct TyEnv<'a> {
    pub lang: Lang,
    pub cfg: &'a Cfg,
    pub params: &'a [String],
    /// original name -> serde-renamed name of the program's items
    pub renames: &'a [(String, String)],
    pub scala_aliases: &'a [(String, String)],
}

fn kind_of(o: &OTy) -> &'static str {
    match o {
        OTy::Seq(_) => "seq",
        OTy::FixedSeq(..) => "fixed-seq",
        OTy::Map(..) => "map",
        OTy::Opt(_) => "opt",
        OTy::Ptr(_) => "ptr",
        OTy::Nullable(_) => "nullable",
        OTy::Name { .. } => "name",
        OTy::Other(_) => "other",
    }
}

/// the typeshare.toml key of a container instance typeshare documents as mappable ("Vec<u8>", also nested:
/// "Vec<Vec<u8>>", "HashMap<String,Vec<u8>>" - the key is the Rust spelling without blanks)
fn special_mapping_key(t: &Ty) -> Option<String> {
    fn key(t: &Ty) -> Option<String> {
        match t.peel() {
            // `&str` is the same special type as `String` to typeshare
            Ty::Prim(Prim::Str) => Some("String".to_string()),
            Ty::Prim(p) if *p != Prim::Unit => Some(p.rust().to_string()),
            Ty::Vec(i) => Some(format!("Vec<{}>", key(i)?)),
            Ty::Map(k, v) => Some(format!("HashMap<{},{}>", key(k)?, key(v)?)),
            _ => None,
        }
    }
    match t {
        Ty::Vec(_) | Ty::Map(..) => key(t),
        _ => None,
    }
}

/// Compare one Rust type expression with the observed target type tree. Err(relation) names the first difference.
pub fn cmp(env: &TyEnv, rust: &Ty, obs: &OTy) -> Result<(), String> {
    let rust = rust.peel();
    // TS: `T | null` below the marker level is the double-option idiom; look through it
    let obs = match obs {
        OTy::Nullable(t) => t.as_ref(),
        o => o,
    };
    if matches!(env.lang, Lang::TypeScript | Lang::Go | Lang::Python) {
        if let Some(k) = special_mapping_key(rust) {
            if let Some(mapped) = env.cfg.type_mappings.get(&k) {
                return match obs {
                    OTy::Name { base, args } if base == mapped && args.is_empty() => Ok(()),
                    // Go spells slices of bytes natively
                    _ => Err(format!("mapping-missed:{k}")),
                };
            }
        }
    }
    match rust {
        Ty::Prim(p) => match obs {
            OTy::Name { base, args } if args.is_empty() => prim_ok(env.lang, *p, base, env.scala_aliases),
            o => Err(format!("shape:prim-vs-{}", kind_of(o))),
        },
        Ty::Param(n) => match obs {
            OTy::Name { base, args } if args.is_empty() && base == n => Ok(()),
            OTy::Name { base, .. } if base.ends_with(n.as_str()) && base.len() > n.len() => Err("prefix:generic-parameter-prefixed".into()),
            o => Err(format!("shape:param-vs-{}", kind_of(o))),
        },
        Ty::User { name, args } => {
            if let Some(mapped) = env.cfg.type_mappings.get(name) {
                return match obs {
                    OTy::Name { base, args: oa } if base == mapped && oa.is_empty() => Ok(()),
                    OTy::Name { base, .. } if base == mapped => Err("mapping:arguments-kept".into()),
                    _ => Err("mapping-missed:user-type".into()),
                };
            }
            match obs {
                OTy::Name { base, args: oa } => {
                    let p = env.cfg.prefix(env.lang);
                    let renamed = env.renames.iter().find(|(o, _)| o == name).map(|(_, r)| r.as_str()).unwrap_or(name.as_str());
                    let with_p = [format!("{p}{name}"), format!("{p}{renamed}")];
                    let without_p = [name.to_string(), renamed.to_string()];
                    if !with_p.iter().any(|c| norm(c) == norm(base)) {
                        if !p.is_empty() && without_p.iter().any(|c| norm(c) == norm(base)) {
                            return Err("prefix:missing-on-user-type".into());
                        }
                        return Err("name:other-type".into());
                    }
                    if oa.len() != args.len() {
                        return Err(format!("arity:{}-vs-{}", args.len(), oa.len()));
                    }
                    for (k, (a, o)) in args.iter().zip(oa.iter()).enumerate() {
                        cmp(env, a, o).map_err(|e| format!("arg{k}~{e}"))?;
                    }
                    Ok(())
                }
                o => Err(format!("shape:user-vs-{}", kind_of(o))),
            }
        }
        Ty::Vec(t) | Ty::Slice(t) => match obs {
            OTy::Seq(o) => cmp(env, t, o).map_err(|e| format!("seq~{e}")),
            o => Err(format!("shape:seq-vs-{}", kind_of(o))),
        },
        Ty::Array(t, n) => match obs {
            OTy::Seq(o) => cmp(env, t, o).map_err(|e| format!("array~{e}")),
            OTy::FixedSeq(o, m) => {
                if m != n {
                    return Err(format!("array-length:{n}-vs-{m}"));
                }
                cmp(env, t, o).map_err(|e| format!("array~{e}"))
            }
            o => Err(format!("shape:array-vs-{}", kind_of(o))),
        },
        Ty::Map(k, v) => match obs {
            OTy::Map(ok, ov) => {
                cmp(env, k, ok).map_err(|e| format!("map-key~{e}"))?;
                cmp(env, v, ov).map_err(|e| format!("map-value~{e}"))
            }
            o => Err(format!("shape:map-vs-{}", kind_of(o))),
        },
        Ty::Opt(t) => match env.lang {
            // TS renders Option transparently below the marker level (documented in the code: "optionality above the type
            // formatting level"); nothing is demanded there
            Lang::TypeScript => cmp(env, t, obs).map_err(|e| format!("opt~{e}")),
            Lang::Go => match obs {
                OTy::Ptr(o) => cmp(env, t, o).map_err(|e| format!("opt~{e}")),
                o if env.cfg.go_no_pointer_slice && matches!(t.peel(), Ty::Vec(_)) => cmp(env, t, o).map_err(|e| format!("opt~{e}")),
                o => Err(format!("shape:opt-vs-{}", kind_of(o))),
            },
            _ => match obs {
                OTy::Opt(o) => cmp(env, t, o).map_err(|e| format!("opt~{e}")),
                o => Err(format!("shape:opt-vs-{}", kind_of(o))),
            },
        },
        Ty::DateTime | Ty::Bad(_) | Ty::Tuple(_) => Ok(()),
        Ty::Wrap(..) | Ty::Ref(_) | Ty::Qual(..) => unreachable!(),
    }
}

/// collapse the node path of a relation to its class (keeps signatures coarse enough to be cells)
pub fn relation_class(rel: &str) -> String {
    // "seq~map-value~shape:..." -> "shape:...@deep" ; top-level stays as is
    match rel.rsplit_once('~') {
        Some((path, last)) => {
            let depth = path.split('~').count();
            format!("{}@{}", last, if depth >= 2 { "deep" } else { "nested" })
        }
        None => rel.to_string(),
    }
}

/// the last element of a relation path
pub fn leaf_relation(rel: &str) -> &str {
    rel.rsplit('~').next().unwrap_or(rel)
}
/// primitive-table relations do not depend on where the leaf sits
pub fn is_prim_relation(rel: &str) -> bool {
    let l = leaf_relation(rel);
    l.starts_with("capacity:") || l.starts_with("category:") || l.starts_with("unknown-target:")
}
