//! C07 — the tool always terminates with output or a diagnostic; it never panics or hangs.
use crate::cli;
use crate::common::*;
use crate::gen::{self, GenCfg};
use crate::model::*;
use crate::ts::{self, Cfg, Lang, Outcome, ALL_LANGS};
use proptest::prelude::*;
use serde::{Deserialize, Serialize};
use serde_json::json;
use std::time::Duration;

/// One tagged edge feature: a snippet of syntactically valid Rust at the edge of the supported grammar.
pub struct Edge {
    pub tag: &'static str,
    pub src: &'static str,
}

/// `{W}` is replaced by a container / wrapper name, `{R}` by a rename_all rule
pub const EDGES: &[Edge] = &[
    Edge { tag: "EmptyTupleStruct", src: "#[typeshare]\npub struct EdgeE();\n" },
    Edge { tag: "EmptyTupleVariant", src: "#[typeshare]\n#[serde(tag = \"t\", content = \"c\")]\npub enum EdgeE { A(), B(String) }\n" },
    Edge { tag: "EmptyStructVariant", src: "#[typeshare]\n#[serde(tag = \"t\", content = \"c\")]\npub enum EdgeE { A {}, B(String) }\n" },
    Edge { tag: "ContainerWithoutArgs", src: "#[typeshare]\npub struct EdgeE { pub f: {W} }\n" },
    Edge { tag: "ContainerWithoutArgs/nested", src: "#[typeshare]\npub struct EdgeE { pub f: Vec<Option<{W}>> }\n" },
    Edge { tag: "ContainerWithoutArgs/alias", src: "#[typeshare]\npub type EdgeE = {W};\n" },
    Edge { tag: "ContainerWithoutArgs/payload", src: "#[typeshare]\n#[serde(tag = \"t\", content = \"c\")]\npub enum EdgeE { A({W}) }\n" },
    Edge { tag: "ContainerLifetimeArgOnly", src: "#[typeshare]\npub struct EdgeE<'a> { pub f: {W}<'a> }\n" },
    Edge { tag: "HashMapOneArg", src: "#[typeshare]\npub struct EdgeE { pub f: HashMap<String> }\n" },
    Edge { tag: "UnknownNestedTypeshareList/field", src: "#[typeshare]\npub struct EdgeE { #[typeshare(cobol(readonly))] pub f: u8 }\n" },
    Edge { tag: "UnknownNestedTypeshareList/variant-field", src: "#[typeshare]\n#[serde(tag = \"t\", content = \"c\")]\npub enum EdgeE { A { #[typeshare(fortran(x = \"y\"))] f: u8 } }\n" },
    Edge { tag: "KnownLanguageListOddArgs", src: "#[typeshare]\npub struct EdgeE { #[typeshare(swift(type = 5), kotlin(), typescript(readonly, type = \"x\",), go)] pub f: u8 }\n" },
    Edge { tag: "KnownLanguageListOddTokens/field", src: "#[typeshare]\npub struct EdgeE { pub a: String, #[typeshare({G}({K}))] pub f: u32, #[typeshare(typescript(readonly))] pub id: u32 }\n" },
    Edge { tag: "KnownLanguageListOddTokens/variant-field", src: "#[typeshare]\n#[serde(tag = \"t\", content = \"c\")]\npub enum EdgeE { A { #[typeshare({G}({K}), {G}(readonly))] f: u8 }, B }\n" },
    Edge { tag: "NonAsciiIdent/field", src: "#[typeshare]\n#[serde(rename_all = \"{R}\")]\npub struct EdgeE { pub \u{e9}t\u{e9}_chaud: u8, pub \u{df}: u8, pub \u{5b57}\u{6bb5}: u8 }\n" },
    Edge { tag: "NonAsciiIdent/variant", src: "#[typeshare]\n#[serde(rename_all = \"{R}\")]\npub enum EdgeE { \u{c9}t\u{e9}, \u{1c5}emal }\n" },
    Edge { tag: "NonAsciiIdent/tagged-variant", src: "#[typeshare]\n#[serde(tag = \"t\", content = \"c\", rename_all = \"{R}\")]\npub enum EdgeE { \u{c9}t\u{e9}(String), \u{416}\u{443}\u{43a} { f: u8 } }\n" },
    Edge { tag: "NonAsciiIdent/type-name", src: "#[typeshare]\n#[serde(tag = \"t\", content = \"c\")]\npub enum \u{dc}nit { A(String) }\n#[typeshare]\npub struct \u{c9}cole { pub f: \u{dc}nit }\n#[typeshare]\npub enum \u{416}\u{443}\u{43a} { A }\n" },
    Edge { tag: "UnderscoreOnlyIdent/field", src: "#[typeshare]\n#[serde(rename_all = \"{R}\")]\npub struct EdgeE { pub __: u8, pub ___: u8 }\n" },
    Edge { tag: "UnderscoreOnlyIdent/variant-field", src: "#[typeshare]\n#[serde(tag = \"t\", content = \"c\")]\npub enum EdgeE { #[serde(rename_all = \"{R}\")] A { __: u8 } }\n" },
    Edge { tag: "UnderscoreVariant", src: "#[typeshare]\n#[serde(rename_all = \"{R}\")]\npub enum EdgeE { __, A_ }\n" },
    Edge { tag: "UnderscoreOnlyTypeName", src: "#[typeshare]\npub struct __ { pub f: u8 }\n#[typeshare]\n#[serde(tag = \"t\", content = \"c\")]\npub enum ___ { A(String) }\n" },
    Edge { tag: "TagKeyOdd", src: "#[typeshare]\n#[serde(tag = \"_\", content = \"__\")]\npub enum EdgeE { A(String), B }\n" },
    Edge { tag: "TagKeyEmpty", src: "#[typeshare]\n#[serde(tag = \"\", content = \"\")]\npub enum EdgeE { A(String), B }\n" },
    Edge { tag: "TagKeyNonAscii", src: "#[typeshare]\n#[serde(tag = \"\u{e9}t\u{e9}\", content = \"\u{5b57}\")]\npub enum EdgeE { A(String), B }\n" },
    Edge { tag: "UseBareCrate", src: "use foo;\nuse bar as baz;\nuse ::qux;\n#[typeshare]\npub struct EdgeE { pub f: u8 }\n" },
    Edge { tag: "DocWithUnicodeLineBreaks", src: "/// first\u{2028}second\u{2029}third\u{85}fourth\n#[doc = \"x\\u{2028}y\\u{85}z\\u{2029}\"]\n#[typeshare]\n#[serde(tag = \"t\", content = \"c\")]\npub enum EdgeE {\n    /// in\u{2028}side\n    A(u8),\n    B {\n        /** bl\u{2029}ock */\n        f: u8,\n    },\n}\n/// al\u{85}ias\n#[typeshare]\npub type EdgeAlias = Vec<EdgeE>;\n" },
    Edge { tag: "DocWithOddCharacters", src: "#[doc = \"nul \\0 bell \\x07 tab \\t vtab \\x0b ff \\x0c esc \\x1b del \\x7f bom \\u{feff} zwj \\u{200d} rtl \\u{202e} astral \\u{1F600} max \\u{10FFFF}\"]\n#[typeshare]\npub struct EdgeE {\n    #[doc = \"\\u{2028}\"]\n    pub f: u8,\n    #[doc = \"\"]\n    #[doc = \" \"]\n    pub g: u8,\n}\n" },
    Edge { tag: "EmptyStructVariantAmongUnitVariants", src: "#[typeshare]\npub enum EdgeE {\n    Square,\n    Circle {},\n    Dot,\n}\n" },
    Edge { tag: "EmptyStructVariantAmongUnitVariants/tagged", src: "#[typeshare]\n#[serde(tag = \"t\", content = \"c\")]\npub enum EdgeE {\n    Square,\n    Circle {},\n    #[serde(skip)]\n    Gone { x: u8 },\n}\n" },
    Edge { tag: "OnlySkippedMembers", src: "#[typeshare]\n#[serde(tag = \"t\", content = \"c\")]\npub enum EdgeE {\n    A { #[serde(skip)] x: u8, #[typeshare(skip)] y: u8 },\n    #[typeshare(skip)]\n    B(u8),\n}\n#[typeshare]\npub struct EdgeS { #[serde(skip)] pub only: u8 }\n" },
    Edge { tag: "GlobImportOfForeignCrate", src: "use some_foreign_crate::*;\nuse another::deep::module::*;\nuse third::{inner::*, Named};\n#[typeshare]\npub struct EdgeE { pub f: u8, pub g: Named }\n" },
    Edge { tag: "GlobImportRelative", src: "use super::*;\nuse crate::*;\nuse self::*;\nuse crate::nowhere::*;\n#[typeshare]\npub struct EdgeE { pub f: u8 }\n" },
    Edge { tag: "UseOddForms", src: "use a::b::{self, c::{self as d, E}};\nuse ::{f, g::H};\npub use i::J as _;\nextern crate k as l;\n#[typeshare]\npub struct EdgeE { pub f: u8 }\n" },
    Edge { tag: "UseOddTrees", src: "use {a::B, c::{self, D}};\nuse self::x::Y;\nuse super::*;\nuse crate::{};\n#[typeshare]\npub struct EdgeE { pub f: Y, pub g: c::D }\n" },
    Edge { tag: "Const", src: "#[typeshare]\npub const EDGE_CONST: u32 = 7;\n" },
    Edge { tag: "Const/odd-values", src: "#[typeshare]\npub const EDGE_A: i32 = -1;\n#[typeshare]\npub const EDGE_B: u32 = 0xff;\n#[typeshare]\npub const EDGE_C: u32 = 1_000u32;\n#[typeshare]\npub const EDGE_D: u32 = (3);\n" },
    Edge { tag: "Const/huge", src: "#[typeshare]\npub const EDGE_H: u32 = 340282366920938463463374607431768211456;\n" },
    Edge { tag: "Const/user-typed", src: "#[typeshare]\npub type EdgePort = u16;\n#[typeshare]\npub const EDGE_P: EdgePort = 80;\n#[typeshare]\npub const EDGE_Q: Vec<u8> = 1;\n#[typeshare]\npub const EDGE_R: [u8; 2] = 1;\n" },
    Edge { tag: "DateTime", src: "#[typeshare]\npub struct EdgeE { pub at: OffsetDateTime, pub maybe: Option<Vec<OffsetDateTime>> }\n" },
    Edge { tag: "GenericMapKey", src: "#[typeshare]\npub struct EdgeE<K> { pub m: HashMap<K, String>, pub n: Vec<HashMap<K, K>> }\n" },
    Edge { tag: "Unsupported64", src: "#[typeshare]\npub struct EdgeE { pub f: {W}<u64> }\n" },
    Edge { tag: "TupleType", src: "#[typeshare]\npub struct EdgeE { pub f: (u8, String), pub g: Vec<(u8,)> }\n" },
    Edge { tag: "TupleStruct2", src: "#[typeshare]\npub struct EdgeE(pub u8, pub String);\n" },
    Edge { tag: "ExoticTypes", src: "#[typeshare]\npub struct EdgeE { pub a: fn(u8) -> u8, pub b: Box<dyn Fn()>, pub c: *const u8, pub d: !, pub e: [u8; N], pub f: [u8; 1 + 2], pub g: <T as Tr>::X, pub h: impl Sized, pub i: (u8), pub j: m!(), pub k: Self, pub l: _ }\n" },
    Edge { tag: "ExoticTypes/each", src: "#[typeshare]\npub struct EdgeA { pub a: fn(u8) -> u8 }\n#[typeshare]\npub struct EdgeB { pub e: [u8; N] }\n#[typeshare]\npub struct EdgeC { pub f: [u8; 1 + 2] }\n#[typeshare]\npub struct EdgeD { pub g: <T as Tr>::X }\n#[typeshare]\npub struct EdgeF { pub i: (u8) }\n#[typeshare]\npub struct EdgeG { pub j: m!() }\n#[typeshare]\npub struct EdgeH { pub k: Self }\n#[typeshare]\npub type EdgeI = [u8; 99999999999999999999];\n" },
    Edge { tag: "GenericsOdd", src: "#[typeshare]\npub struct EdgeE<'a, T: Clone + 'a, const N: usize, U = u8> where T: Default { pub a: &'a T, pub b: [U; N], pub c: PhantomData<&'a ()> }\n" },
    Edge { tag: "AttrOddForms", src: "#[typeshare]\n#[serde]\n#[serde = \"x\"]\n#[serde(rename)]\n#[serde(rename = 5)]\n#[serde(rename_all = 5, tag)]\n#[doc = 5]\n#[doc]\n#[doc(hidden)]\npub struct EdgeE { #[serde(rename = b\"x\")] #[serde(default = 1)] #[serde(skip = \"x\")] pub f: u8 }\n" },
    Edge { tag: "TypeshareAttrOddForms", src: "#[typeshare = \"x\"]\npub struct EdgeA { pub f: u8 }\n#[typeshare(serialized_as = \"not a type !!\")]\npub struct EdgeB { pub f: u8 }\n#[typeshare(serialized_as = \"\")]\npub struct EdgeC { pub f: u8 }\n#[typeshare(serialized_as = 5)]\npub struct EdgeD { pub f: u8 }\n#[typeshare(swift = 5, kotlin = \"\", swiftGenericConstraints = \"T\", swiftGenericConstraints = \":\", swiftGenericConstraints = \"T: \")]\npub struct EdgeF<T> { #[typeshare(serialized_as = \"Vec<\")] pub f: T }\n" },
    Edge { tag: "SerializedAsOdd", src: "#[typeshare(serialized_as = \"Vec\")]\npub struct EdgeA { pub f: u8 }\n#[typeshare]\npub struct EdgeB { #[typeshare(serialized_as = \"Option\")] pub f: u8 }\n#[typeshare(serialized_as = \"HashMap<String>\")]\npub enum EdgeC { A }\n" },
    Edge { tag: "CfgOddForms", src: "#[typeshare]\n#[cfg(target_os)]\n#[cfg(not)]\n#[cfg()]\n#[cfg(target_os = 1)]\n#[cfg(any(target_os = \"a\", not(all())))]\n#[cfg = \"x\"]\npub struct EdgeE { #[cfg(not(not(not(target_os = \"a\"))))] pub f: u8 }\n" },
    Edge { tag: "NonItems", src: "#[typeshare]\npub fn edge_f() {}\n#[typeshare]\npub static EDGE_S: u8 = 1;\n#[typeshare]\npub union EdgeU { a: u8 }\n#[typeshare]\npub trait EdgeT {}\n#[typeshare]\nimpl EdgeT for u8 {}\n#[typeshare]\nmod edge_m {}\n#[typeshare]\nmacro_rules! m { () => {} }\n#[typeshare]\nextern crate foo;\n#[typeshare]\npub struct EdgeE { pub f: u8 }\n" },
    Edge { tag: "EnumDiscriminants", src: "#[typeshare]\npub enum EdgeE { A = 1, B = 1 + 1, C = -5 }\n" },
    Edge { tag: "EmptyEnumAndStruct", src: "#[typeshare]\npub enum EdgeA {}\n#[typeshare]\npub struct EdgeB {}\n#[typeshare]\n#[serde(tag = \"t\", content = \"c\")]\npub enum EdgeC {}\n" },
    Edge { tag: "AllVariantsSkipped", src: "#[typeshare]\n#[serde(tag = \"t\", content = \"c\")]\npub enum EdgeE { #[serde(skip)] A(String), #[typeshare(skip)] B { f: u8 } }\n" },
    Edge { tag: "UnitEnumWithTag", src: "#[typeshare]\n#[serde(tag = \"t\")]\npub enum EdgeE { A, B }\n" },
    Edge { tag: "DataEnumWithoutTag", src: "#[typeshare]\npub enum EdgeE { A(String), B }\n" },
    Edge { tag: "DigitLeadingRename", src: "#[typeshare]\n#[serde(tag = \"t\", content = \"c\")]\npub enum EdgeE { #[serde(rename = \"1st\")] A(String), #[serde(rename = \"\")] B, #[serde(rename = \"with space\")] C }\n#[typeshare]\npub struct EdgeS { #[serde(rename = \"\")] pub a: u8, #[serde(rename = \"2 b\")] pub b: u8, #[serde(rename = \"\\\"quoted\\\"\")] pub c: u8 }\n" },
    Edge { tag: "ItemRenameOdd", src: "#[typeshare]\n#[serde(rename = \"\")]\npub struct EdgeA { pub f: u8 }\n#[typeshare]\n#[serde(rename = \"with-dash\")]\npub struct EdgeB { pub f: u8 }\n#[typeshare]\n#[serde(rename = \"1digit\", tag = \"t\", content = \"c\")]\npub enum EdgeC { A(String) }\n#[typeshare]\n#[serde(rename = \"\u{e9}\")]\npub enum EdgeD { A }\n" },
    Edge { tag: "DeepNesting", src: "#[typeshare]\npub struct EdgeE { pub f: Vec<Vec<Vec<Vec<Vec<Vec<Vec<Vec<Vec<Vec<Vec<Vec<Vec<Vec<Vec<Vec<Vec<Vec<Vec<Vec<Vec<Vec<Vec<Vec<Vec<Vec<Vec<Vec<Vec<Vec<Vec<Vec<Option<HashMap<String, Box<u8>>>>>>>>>>>>>>>>>>>>>>>>>>>>>>>>>>>> }\n" },
    Edge { tag: "SelfReferentialAliases", src: "#[typeshare]\npub type EdgeA = EdgeB;\n#[typeshare]\npub type EdgeB = EdgeA;\n#[typeshare]\npub type EdgeC = EdgeC;\n#[typeshare]\npub type EdgeD<T> = EdgeD<EdgeD<T>>;\n" },
    Edge { tag: "DuplicateNames", src: "#[typeshare]\npub struct EdgeE { pub f: u8 }\n#[typeshare]\npub enum EdgeE { A }\n#[typeshare]\npub type EdgeE = u8;\n#[typeshare]\npub struct EdgeF { pub f: u8, pub f: u16 }\n" },
    Edge { tag: "KeywordTypeNames", src: "#[typeshare]\npub struct Type { pub f: u8 }\n#[typeshare]\npub enum Protocol { A }\n#[typeshare]\npub type Any = u8;\n#[typeshare]\npub struct None_ { pub f: Type }\n#[typeshare]\n#[serde(tag = \"t\", content = \"c\")]\npub enum Self_ { init(Type), r#type { r#self: u8 } }\n" },
    Edge { tag: "OddMapKeys/field", src: "#[typeshare]\npub struct EdgeE { pub a: HashMap<Vec<u8>, String>, pub b: HashMap<HashMap<String, u8>, u8>, pub c: HashMap<Option<String>, u8>, pub d: HashMap<(), u8>, pub e: HashMap<f64, bool>, pub f: HashMap<[u8; 2], u8> }\n" },
    Edge { tag: "OddMapKeys/payload", src: "#[typeshare]\n#[serde(tag = \"t\", content = \"c\")]\npub enum EdgeE { A(HashMap<Vec<u8>, String>), B(HashMap<HashMap<String, u8>, u8>), C(Vec<HashMap<Option<u8>, ()>>) }\n" },
    Edge { tag: "OddMapKeys/alias", src: "#[typeshare]\npub type EdgeA = HashMap<Vec<String>, Vec<String>>;\n#[typeshare]\npub struct EdgeB(pub HashMap<HashMap<u8, u8>, HashMap<u8, u8>>);\n" },
    Edge { tag: "PayloadOddTypes", src: "#[typeshare]\n#[serde(tag = \"t\", content = \"c\")]\npub enum EdgeE<T> { A(T), B(Vec<T>), C(HashMap<String, T>), D(Option<Option<T>>), E([T; 2]), F(&[T]), G(()), H(Box<EdgeE<T>>), I(OtherGeneric<T, T>) }\n" },
    Edge { tag: "OnlyComment", src: "// #[typeshare] appears only in a comment\npub struct EdgeE { pub f: u8 }\n" },
    Edge { tag: "TypeshareInString", src: "pub const EDGE_TXT: &str = \"#[typeshare]\";\n" },
    Edge { tag: "MacroBodies", src: "macro_rules! gen { () => { #[typeshare] pub struct EdgeInMacro { pub f: u8 } } }\ngen!();\n#[typeshare]\npub struct EdgeE { pub f: u8 }\n" },
    Edge { tag: "NestedFnItems", src: "pub fn edge_outer() { #[typeshare] pub struct EdgeInner { pub f: u8 } }\nimpl Foo { fn bar() { #[typeshare] enum EdgeInImpl { A } } }\n" },
];

pub const WRAPPERS: &[&str] = &["Vec", "Option", "HashMap", "Box", "Arc", "Rc", "Cow", "Cell", "RefCell", "Mutex", "RwLock", "Weak", "ArcWeak", "RcWeak"];
/// `{G}`: the name of a nested field-decorator list; `{K}`: its content, a token run that is not a decorator list
pub const LIST_NAMES: &[&str] = &["typescript", "kotlin", "swift", "go", "python", "scala"];
pub const ODD_TOKENS: &[&str] = &[
    "@JvmField", "= \"x\"", "#[inline]", "(nested)", "readonly;", "5", "\"readonly\"", "readonly readonly", ", readonly", "readonly,, other", "a::b", "-x", "readonly = other",
    "type = \"x\" readonly", "[x]", "{ x }", "?", "'a", "readonly, = \"x\"", "r#type = \"x\"", "readonly, 5", "x = 1.5", "x = \"a\" = \"b\"",
];
pub const RULES9: &[&str] = &["lowercase", "UPPERCASE", "PascalCase", "camelCase", "snake_case", "SCREAMING_SNAKE_CASE", "kebab-case", "SCREAMING-KEBAB-CASE", "bogus"];

#[derive(Clone, Debug, Serialize, Deserialize)]
pub struct Case {
    pub edge: usize,
    pub w: usize,
    pub r: usize,
    pub base: Vec<Item>,
    pub edge_first: bool,
    pub cfg: Cfg,
}

pub fn edge_src(c: &Case) -> String {
    let e = &EDGES[c.edge % EDGES.len()];
    e.src.replace("{W}", WRAPPERS[c.w % WRAPPERS.len()]).replace("{R}", RULES9[c.r % RULES9.len()]).replace("{K}", ODD_TOKENS[c.w % ODD_TOKENS.len()]).replace("{G}", LIST_NAMES[c.r % LIST_NAMES.len()])
}
pub fn case_src(c: &Case) -> String {
    let base = items_src(&c.base);
    let e = edge_src(c);
    // `use` lines must come first to stay valid Rust
    if c.edge_first || e.starts_with("use ") {
        format!("{e}\n{base}")
    } else {
        format!("{base}\n{e}")
    }
}

/// `core/src/parser.rs:287` -> `core/src/parser.rs::parse_struct` (survives unrelated line shifts)
pub fn panic_site(loc: &str) -> String {
    let (file, line) = match loc.rsplit_once(':') {
        Some((f, l)) => (f.to_string(), l.parse::<usize>().unwrap_or(0)),
        None => (loc.to_string(), 0),
    };
    let rel = file.trim_start_matches("/repo/").to_string();
    let path = if file.starts_with('/') { file.clone() } else { format!("/repo/{rel}") };
    if let Ok(text) = std::fs::read_to_string(&path) {
        let lines: Vec<&str> = text.lines().collect();
        let mut i = line.min(lines.len());
        while i > 0 {
            i -= 1;
            let l = lines[i].trim_start();
            let l = l.strip_prefix("pub(crate) ").or_else(|| l.strip_prefix("pub ")).unwrap_or(l);
            if let Some(rest) = l.strip_prefix("fn ") {
                let name: String = rest.chars().take_while(|c| c.is_alphanumeric() || *c == '_').collect();
                return format!("{rel}::{name}");
            }
        }
        return format!("{rel}::?");
    }
    // outside the repository (a dependency): keep the crate-relative tail
    let tail: Vec<&str> = file.rsplit('/').take(3).collect();
    format!("dep:{}", tail.into_iter().rev().collect::<Vec<_>>().join("/"))
}

pub struct C07;
impl SubCheck for C07 {
    type Case = Case;
    fn crash_guard(&self) -> bool {
        true
    }
    fn name(&self) -> &'static str {
        "c07-inprocess"
    }
    fn strategy(&self, _tier: Tier) -> BoxedStrategy<Case> {
        let mut g = GenCfg::base();
        g.min_items = 0;
        g.max_items = 3;
        g.ty_depth = 2;
        g.max_fields = 3;
        (0..EDGES.len(), 0..WRAPPERS.len().max(ODD_TOKENS.len()), 0..RULES9.len(), gen::program(&g), any::<bool>(), crate::prog::cfg_strategy(), any::<bool>())
            .prop_map(|(edge, w, r, base, edge_first, mut cfg, empty_pkg)| {
                if empty_pkg {
                    cfg.scala_package = String::new();
                    cfg.go_package = String::new();
                    cfg.kotlin_package = String::new();
                }
                Case { edge, w, r, base, edge_first, cfg }
            })
            .boxed()
    }
    fn eval(&self, run: &Run, c: &Case, _w: &mut Worker, counting: bool) -> Vec<Violation> {
        let src = case_src(c);
        let tag = EDGES[c.edge % EDGES.len()].tag;
        if counting {
            run.label(&format!("edge/{tag}"));
            run.sample("edge-program", 3, || json!({"edge": tag, "source": src}));
        }
        let mut out = vec![];
        for lang in ALL_LANGS {
            if counting {
                run.nontrivial(hash_of(&(tag, c.w, c.r, lang, c.edge_first, c.cfg.scala_package.is_empty())));
            }
            let _ = ts::take_panic_loc();
            let o = ts::generate(lang, &c.cfg, &[&src], &[]);
            if counting {
                run.label(&format!("outcome/{}", match &o { Outcome::Ok(_) => "ok", Outcome::Empty => "empty", Outcome::ParseErr(_) => "parse-error", Outcome::GenErr(_) => "gen-error", Outcome::Panic(_) => "panic" }));
            }
            if let Outcome::Panic(msg) = o {
                let site = ts::take_panic_loc().map(|l| panic_site(&l)).unwrap_or_else(|| "unknown".into());
                // parser-level panics do not depend on the language
                let parse_level = site.contains("parser.rs") || site.contains("rust_types.rs") || site.contains("rename.rs") || site.contains("visitors.rs");
                out.push(Violation::new(
                    format!("panic/{}/{}{}", site, tag, if parse_level { String::new() } else { format!("/{}", lang.short()) }),
                    format!("in-process {}: panic at {} ({}) on edge `{}`:\n{}", lang.name(), site, msg.lines().next().unwrap_or(""), tag, edge_src(c)),
                ));
            }
        }
        out.sort_by(|a, b| a.sig.cmp(&b.sig));
        out.dedup_by(|a, b| a.sig == b.sig);
        out
    }
    fn render(&self, c: &Case) -> serde_json::Value {
        json!({"edge": EDGES[c.edge % EDGES.len()].tag, "source": case_src(c), "cfg": c.cfg})
    }
}

/// raw-file faults for the real binary
fn fault_files() -> Vec<(&'static str, Vec<(String, Vec<u8>)>)> {
    let ok = b"#[typeshare]\npub struct Fine { pub f: u8 }\n".to_vec();
    vec![
        ("UnparsableFile", vec![("c1/src/lib.rs".into(), ok.clone()), ("c1/src/bad.rs".into(), b"#[typeshare]\npub struct {".to_vec())]),
        ("UnparsableFile/no-marker", vec![("c1/src/lib.rs".into(), ok.clone()), ("c1/src/bad.rs".into(), b"pub struct {".to_vec())]),
        ("InvalidUtf8File", vec![("c1/src/lib.rs".into(), ok.clone()), ("c1/src/bad.rs".into(), vec![b'#', b'[', b't', 0xff, 0xfe, 0x00, b']'])]),
        ("EmptyFile", vec![("c1/src/lib.rs".into(), ok.clone()), ("c1/src/empty.rs".into(), vec![])]),
        ("NoAnnotatedItems", vec![("c1/src/lib.rs".into(), b"pub struct Plain { pub f: u8 }\n".to_vec())]),
        ("FileOutsideSrc", vec![("loose.rs".into(), ok.clone()), ("c1/lib.rs".into(), ok.clone())]),
        ("SrcAtRoot", vec![("src/lib.rs".into(), ok.clone())]),
        ("BomAndCrLf", vec![("c1/src/lib.rs".into(), b"\xef\xbb\xbf#[typeshare]\r\npub struct Fine {\r\n pub f: u8\r\n}\r\n".to_vec())]),
        ("ShebangAndInnerAttrs", vec![("c1/src/lib.rs".into(), b"#!/usr/bin/env rust\n#![allow(dead_code)]\n#![cfg(target_os = \"a\")]\n#[typeshare]\npub struct Fine { pub f: u8 }\n".to_vec())]),
    ]
}

fn classify_cli(r: &cli::CliRun, out_exists: bool, names_file: Option<&str>) -> Option<(String, String)> {
    if r.timed_out {
        let after_panic = r.stderr.contains("panicked at");
        let site = r.panic_site().map(|l| panic_site(&l)).unwrap_or_else(|| "no-panic-message".into());
        return Some((format!("{}/{}", if after_panic { "hang-after-panic" } else { "hang" }, site), format!("the process did not terminate within the watchdog; stderr: {}", r.stderr.lines().rev().take(3).collect::<Vec<_>>().join(" | "))));
    }
    if r.panicked() {
        let site = r.panic_site().map(|l| panic_site(&l)).unwrap_or_else(|| "unknown".into());
        return Some((format!("panic/{site}"), format!("exit {:?}; stderr: {}", r.code, r.stderr.lines().filter(|l| l.contains("panicked") || l.contains("src/")).take(3).collect::<Vec<_>>().join(" | "))));
    }
    if r.signal {
        return Some(("abort/signal".into(), "killed by a signal".into()));
    }
    match r.code {
        Some(0) => {
            if !out_exists {
                // exit 0 without the requested output: allowed only when there was nothing to generate (the CLI says so)
                None
            } else {
                None
            }
        }
        Some(_) => {
            let has_diag = !r.stderr.trim().is_empty();
            if !has_diag {
                return Some(("silent-failure".into(), format!("exit {:?} without any diagnostic", r.code)));
            }
            if let Some(f) = names_file {
                if !r.stderr.contains(f) {
                    return Some(("no-file-in-diagnostic".into(), format!("exit {:?}; the diagnostic does not name the offending file `{f}`: {}", r.code, r.stderr.lines().last().unwrap_or(""))));
                }
            }
            None
        }
        None => Some(("abort/unknown".into(), "no exit status".into())),
    }
}

/// Real binary: every catalogue edge x language x mode, plus raw-file faults. Fixed work.
fn cli_family(run: &Run) {
    if !cli::bin_available() {
        run.inconclusive("typeshare binary not built");
        return;
    }
    let mut jobs: Vec<(String, Vec<(String, Vec<u8>)>, Lang, bool, Option<String>, Vec<String>)> = vec![];
    for (ei, e) in EDGES.iter().enumerate() {
        let variants: Vec<(usize, usize)> = if e.src.contains("{K}") {
            (0..ODD_TOKENS.len()).flat_map(|w| (0..LIST_NAMES.len()).map(move |r| (w, r))).collect()
        } else if e.src.contains("{W}") {
            (0..WRAPPERS.len()).map(|w| (w, 0)).collect()
        } else if e.src.contains("{R}") {
            (0..RULES9.len()).map(|r| (0, r)).collect()
        } else {
            vec![(0, 0)]
        };
        for (w, r) in variants {
            let c = Case { edge: ei, w, r, base: vec![], edge_first: true, cfg: Cfg::plain() };
            let src = format!("{}\n#[typeshare]\npub struct Companion {{ pub f: u8 }}\n", edge_src(&c));
            for lang in ALL_LANGS {
                for folder in [false, true] {
                    if run.tier == Tier::Quick && (w + r + ei + lang as usize + folder as usize) % 3 != 0 && e.src.contains('{') {
                        continue; // quick: a third of the parameterised variants (all plain ones)
                    }
                    let tag = format!("{}{}{}", e.tag, if e.src.contains("{W}") { format!("[{}]", WRAPPERS[w]) } else { String::new() }, if e.src.contains("{R}") { format!("[{}]", RULES9[r]) } else if e.src.contains("{K}") { format!("[{}({})]", LIST_NAMES[r], ODD_TOKENS[w]) } else { String::new() });
                    jobs.push((tag, vec![("edge-crate/src/lib.rs".into(), src.clone().into_bytes())], lang, folder, Some("lib.rs".into()), vec![]));
                }
            }
        }
    }
    for (tag, files) in fault_files() {
        for lang in ALL_LANGS {
            for folder in [false, true] {
                let bad = files.iter().find(|(p, _)| p.contains("bad")).map(|(p, _)| p.rsplit('/').next().unwrap().to_string());
                jobs.push((tag.to_string(), files.clone(), lang, folder, bad, vec![]));
            }
        }
    }
    // option-level faults
    for lang in ALL_LANGS {
        let ok = vec![("c1/src/lib.rs".to_string(), b"#[typeshare]\npub struct Fine { pub f: u8 }\n".to_vec())];
        jobs.push(("EmptyPackageOption".into(), ok.clone(), lang, false, None, vec!["--scala-package".into(), "".into(), "--java-package".into(), "".into(), "--go-package".into(), "".into()]));
        jobs.push(("TargetOsOdd".into(), ok.clone(), lang, false, None, vec!["--target-os".into(), "".into()]));
        jobs.push(("DanglingSymlink-L".into(), ok.clone(), lang, true, None, vec!["-L".into()]));
    }
    // configuration-level faults (odd but loadable typeshare.toml) and odd pre-existing content of the output location
    {
        let unit_src = b"#[typeshare]\npub struct IdHolder { pub user_id: u8, pub nothing: (), pub at: Option<Vec<IdHolder>> }\n#[typeshare]\n#[serde(tag = \"t\", content = \"c\")]\npub enum IdEvent { UrlSeen(IdHolder), Http { id: u8 } }\n".to_vec();
        let odd_cfgs: [(&str, &str); 6] = [
            ("OddConfig/empty-acronym-entry", "[go]\npackage = \"p\"\nuppercase_acronyms = [\"ID\", \"\", \"url\"]\n"),
            ("OddConfig/acronym-is-whole-name", "[go]\npackage = \"p\"\nuppercase_acronyms = [\"IdHolder\", \"I\", \"d\"]\n"),
            ("OddConfig/empty-mapping-key-and-value", "[typescript.type_mappings]\n\"\" = \"\"\n[kotlin.type_mappings]\n\"\" = \"\"\n[swift.type_mappings]\n\"\" = \"\"\n[scala.type_mappings]\n\"\" = \"\"\n[go.type_mappings]\n\"\" = \"\"\n[python.type_mappings]\n\"\" = \"\"\n[go]\npackage = \"p\"\n"),
            ("OddConfig/empty-decorators-and-constraints", "[swift]\ndefault_decorators = [\"\", \" \"]\ndefault_generic_constraints = [\"\"]\ncodablevoid_constraints = [\"\"]\n[go]\npackage = \"p\"\n"),
            ("OddConfig/odd-prefixes-and-packages", "[swift]\nprefix = \" \"\n[kotlin]\nprefix = \"9\"\npackage = \"..\"\nmodule_name = \"\"\n[scala]\npackage = \".\"\nmodule_name = \".\"\n[go]\npackage = \" \"\n"),
            ("OddConfig/unknown-sections-and-keys", "[cobol]\nx = 1\n[swift]\nnot_a_key = true\n[go]\npackage = \"p\"\n"),
        ];
        for (tag, toml) in odd_cfgs {
            for lang in ALL_LANGS {
                for folder in [false, true] {
                    let files = vec![("c1/src/lib.rs".to_string(), unit_src.clone()), ("cfg/odd.toml".to_string(), toml.as_bytes().to_vec())];
                    jobs.push((tag.to_string(), files, lang, folder, None, vec!["-c".into(), "{TREE}/cfg/odd.toml".into()]));
                }
            }
        }
        for (tag, pre) in [("PreexistingOutput/empty-files", 0u8), ("PreexistingOutput/one-byte-files", 1u8), ("PreexistingOutput/directories-in-the-way", 2u8)] {
            for lang in ALL_LANGS {
                for folder in [false, true] {
                    let files = vec![("the_crate/src/lib.rs".to_string(), unit_src.clone())];
                    jobs.push((format!("{tag}"), files, lang, folder, None, vec![format!("{{PRE{pre}}}")]));
                }
            }
        }
    }
    // many files: more per-file results than the capacity of the result channel (100)
    {
        let mut many: Vec<(String, Vec<u8>)> = vec![];
        for i in 0..260 {
            many.push((format!("big-crate/src/m{i:03}.rs"), format!("#[typeshare]\npub struct Many{i} {{ pub f: u8 }}\n").into_bytes()));
        }
        for lang in [Lang::TypeScript, Lang::Swift, Lang::Go] {
            for folder in [false, true] {
                jobs.push(("ManyFiles(260)".into(), many.clone(), lang, folder, None, vec![]));
            }
        }
    }
    let total = jobs.len();
    let jobs = std::sync::Mutex::new(jobs.into_iter().enumerate().collect::<Vec<_>>());
    std::thread::scope(|sc| {
        for k in 0..threads() {
            let jobs = &jobs;
            sc.spawn(move || {
                let w = Worker::new("C07cli", k);
                loop {
                    let job = { jobs.lock().unwrap().pop() };
                    let Some((idx, (tag, files, lang, folder, names_file, extra))) = job else { break };
                    let root = cli::fresh_dir(&w.scratch, &format!("j{idx}"));
                    let tree = root.join("tree");
                    cli::write_tree(&tree, &files);
                    if tag.starts_with("DanglingSymlink") {
                        let _ = std::os::unix::fs::symlink("/nonexistent/target", tree.join("c1/src/dangling.rs"));
                        let _ = std::fs::create_dir_all(tree.join("c1/src/dir.rs"));
                    }
                    let cfg = Cfg::plain();
                    let mut args = if extra.iter().any(|a| a == "--scala-package") { vec!["--lang".to_string(), lang.name().to_string()] } else { cli::lang_args(lang, &cfg) };
                    args.extend(extra.iter().filter(|a| !a.starts_with("{PRE")).map(|a| a.replace("{TREE}", &tree.to_string_lossy())));
                    let out = root.join("out");
                    std::fs::create_dir_all(&out).unwrap();
                    let out_path = if folder { out.clone() } else { out.join(format!("out.{}", lang.ext())) };
                    if let Some(pre) = extra.iter().find(|a| a.starts_with("{PRE")) {
                        // what an interrupted run, a build-system placeholder or a careless mkdir leaves behind
                        let stem = match lang {
                            Lang::Swift => "TheCrate".to_string(),
                            _ => "the_crate".to_string(),
                        };
                        let names = if folder { vec![format!("{stem}.{}", lang.ext()), "Codable.swift".to_string()] } else { vec![format!("out.{}", lang.ext())] };
                        for n in names {
                            let p = out.join(&n);
                            match pre.as_str() {
                                "{PRE0}" => std::fs::write(&p, b"").unwrap(),
                                "{PRE1}" => std::fs::write(&p, b"\n").unwrap(),
                                _ => std::fs::create_dir_all(&p).unwrap(),
                            }
                        }
                    }
                    args.push(if folder { "-d".into() } else { "-o".into() });
                    args.push(out_path.to_string_lossy().into_owned());
                    if tag == "TargetOsOdd" {
                        // positional directories must precede a num_args(1..) option
                        let n = args.len();
                        args.insert(n - 4, tree.to_string_lossy().into_owned());
                    } else {
                        args.push(tree.to_string_lossy().into_owned());
                    }
                    let r = cli::run(&args, &root, &[], Duration::from_secs(10));
                    run.count_eval(1);
                    run.nontrivial(hash_of(&("cli", &tag, lang, folder)));
                    run.label(&format!("cli/outcome/{}", if r.timed_out { "timeout".to_string() } else { format!("exit={:?}", r.code) }));
                    if r.wall_ms > 2000 {
                        run.label(&format!("cli/slow(>2s)/{tag}"));
                    }
                    let out_exists = if folder { !cli::read_tree(&out).is_empty() } else { out_path.exists() };
                    if let Some((rel, detail)) = classify_cli(&r, out_exists, names_file.as_deref()) {
                        let lang_part = if rel.contains("language/") || tag.starts_with("EmptyPackage") || tag.starts_with("Const") { format!("/{}", lang.short()) } else { String::new() };
                        let v = Violation::new(format!("cli/{}/{}{}", rel, tag, lang_part), format!("typeshare {} ({} mode) on edge `{}`: {}", lang.name(), if folder { "folder" } else { "single-file" }, tag, detail));
                        if run.is_known(&v.sig) {
                            run.known_hit(&v.sig);
                        } else {
                            run.record_violation("c07-cli", &v, json!({"tag": tag, "lang": lang.name(), "folder": folder, "args": args}), json!({"files": files.iter().map(|(p, c)| json!({"path": p, "content": String::from_utf8_lossy(c)})).collect::<Vec<_>>(), "args": args, "stderr": r.stderr}));
                        }
                    }
                    let _ = std::fs::remove_dir_all(&root);
                }
            });
        }
    });
    run.extra("cli_runs", json!(total));
}

pub fn run(run: &Run) {
    ts::install_panic_hook();
    run.set_rule("(a) in-process: a supported program of 0-3 items plus one tagged edge feature from a catalogue of syntactically valid Rust at the edge of the supported grammar (empty tuple structs/variants, containers without arguments x 14 container names, unknown nested typeshare(..) lists, field-decorator lists of the six known languages whose content is not a decorator list x 23 token runs (`@JvmField`, `= \"x\"`, `(nested)`, `readonly;`, doubled commas, literals, paths, ...), non-ASCII / underscore-only identifiers x 9 rename_all rules, bare `use`, consts, DateTime, generic map keys, exotic type syntax, odd attribute forms, odd cfg forms, non-items, empty bodies, odd renames, deep nesting, self-referential aliases, duplicate names, keyword type names, ...), before or after the program, x 6 languages x configurations incl. empty packages; oracle: no unwind out of parse / reconcile / any back end. (b) real binary: every catalogue edge x language x {single file, folder} plus raw-file faults (unparsable, invalid UTF-8, empty, no annotated item, files outside src, BOM/CRLF, dangling symlink with -L, a directory named x.rs, empty package options), odd but loadable typeshare.toml files (empty acronym / mapping / decorator entries, odd prefixes and packages, unknown keys), odd pre-existing content of the output location (empty files, one-byte files, directories in the way; incl. Codable.swift); oracle: terminates within the watchdog with exit 0, or exit != 0 with a diagnostic (naming the offending file where one exists); never a panic message, exit 101, signal or hang. Non-trivial: every case carries an edge tag; distinct by (tag, parameters, language, mode).");
    run.assume("a watchdog of 10 s (normal run time ~5 ms) decides 'hang'; panic sites are keyed by file::function, resolved from the reported line, so unrelated line shifts do not rename a finding");
    replay_regress(run, &C07);
    search(run, &C07, run.tier.pick(20_000, 400_000));
    cli_family(run);    if run.tier == Tier::Thorough {
        crate::fuzz::campaign(run, "c07_total", 2_000_000, 2048);
    }
}

pub fn replay(run: &Run, case: &serde_json::Value) -> Result<Vec<Violation>, String> {
    ts::install_panic_hook();
    if case.get("edge").is_some() {
        replay_case(run, &C07, case)
    } else {
        Err("c07-cli replay files are re-run by hand from their `args`".into())
    }
}
