//! Dependency-free derive that dumps the item *as a derive macro sees it* (i.e. after attribute macros placed above it
//! have run) into `const DUMP_<Name>: &str`, canonicalised as a flat, space separated list of tokens.
//! Deliberately declares NO helper attributes: a `#[typeshare(..)]` left on a field stays an error.
extern crate proc_macro;
use proc_macro::{Delimiter, TokenStream, TokenTree};

fn canon(ts: TokenStream, out: &mut Vec<String>) {
    for tt in ts {
        match tt {
            TokenTree::Group(g) => {
                let (o, c) = match g.delimiter() {
                    Delimiter::Parenthesis => ("(", ")"),
                    Delimiter::Brace => ("{", "}"),
                    Delimiter::Bracket => ("[", "]"),
                    Delimiter::None => ("", ""),
                };
                if !o.is_empty() {
                    out.push(o.to_string());
                }
                canon(g.stream(), out);
                if !c.is_empty() {
                    out.push(c.to_string());
                }
            }
            TokenTree::Ident(i) => out.push(i.to_string()),
            TokenTree::Punct(p) => out.push(p.as_char().to_string()),
            TokenTree::Literal(l) => out.push(l.to_string()),
        }
    }
}

#[proc_macro_derive(Dump)]
pub fn dump(input: TokenStream) -> TokenStream {
    let mut toks = vec![];
    canon(input, &mut toks);
    let mut name = String::from("Unknown");
    for (i, t) in toks.iter().enumerate() {
        if (t == "struct" || t == "enum" || t == "union") && i + 1 < toks.len() {
            name = toks[i + 1].clone();
            break;
        }
    }
    let text = toks.join(" ");
    format!("#[allow(non_upper_case_globals, dead_code)] pub const DUMP_{}: &str = {:?};", name, text).parse().unwrap()
}
