#!/usr/bin/env python3
"""Regenerates /verif/MANIFEST.json from the table below and validates it against the schema."""
import json, sys

CHECKS = {
    # id: (technique, level text, level note, design ref)
}
NOT_YET = {}

def load():
    here = "/verif/tools/manifest_table.json"
    return json.load(open(here))

def main():
    t = load()
    checks = []
    for pid, c in sorted(t["checks"].items()):
        checks.append({
            "property_id": pid,
            "quick_cmd": f"./check {pid} quick",
            "thorough_cmd": f"./check {pid} thorough",
            "evidence_file": f"/verif/evidence/{pid}.json",
            "replay_cmd_template": f"./check {pid} --replay {{path}}",
            "engine": "harness",
            "level_claimed": {"category": "exploration", "text": c["text"], "design_ref": c["design_ref"]},
            "level_note": c["note"],
            "technique": c["technique"],
        })
    m = {
        "version": 1,
        "setup_cmd": "./check --setup",
        "hooks": t["hooks"],
        "engines": [{
            "name": "harness",
            "path": "/verif/harness",
            "serves_properties": sorted(t["checks"].keys()),
            "kind_free_text": "Rust binary: proptest 1.11 generators + shrinking over a typed program model, explicit oracles (vendored serde_derive case.rs, documented rules, reference models), six foreign-code observers, real-binary runner; libFuzzer targets for the thorough tiers",
        }],
        "checks": checks,
        "notes": t.get("notes", ""),
        "not_applicable": [{"property_id": k, "reason": v} for k, v in sorted(t.get("not_applicable", {}).items())],
    }
    json.dump(m, open("/verif/MANIFEST.json", "w"), indent=1)
    try:
        import jsonschema
        jsonschema.validate(m, json.load(open("/root/.vp/MANIFEST.schema.json")))
        print("MANIFEST.json valid;", len(checks), "checks,", len(m["not_applicable"]), "not_applicable")
    except ImportError:
        print("jsonschema not available; written without validation")

main()
