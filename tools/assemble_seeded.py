#!/usr/bin/env python3
"""Assembles /verif/seeded/<id>/ from seeded_incoming + the confirmation results of tools/verify_seeded.sh."""
import json, os, shutil, subprocess, sys
inc='/verif/seeded_incoming'; out='/verif/seeded'
rows={}
for l in open('/verif/work/seeded_verify.tsv'):
    p=l.rstrip('\n').split('\t')
    rows[(p[0],p[1])]={'patch':p[2],'applies':p[3].split('=')[1],'demo_clean_rc':p[4].split('=')[1],'tests':p[5].split('=')[1],'demo_patched_rc':p[6].split('=')[1]}
head=subprocess.check_output(['git','-C','/repo','log','--format=%h','-1']).decode().strip()
kept=[]
for (c,n),r in sorted(rows.items()):
    ok = r['applies']=='yes' and r['demo_clean_rc']=='0' and r['tests'].startswith('370 passed') and r['demo_patched_rc'] not in ('0','NA')
    sid=f"{c}-{n}"
    d=f"{out}/{sid}"
    if not ok:
        print("NOT KEPT",sid,r)
        if os.path.isdir(d): shutil.rmtree(d)
        continue
    os.makedirs(d,exist_ok=True)
    shutil.copy(f"{inc}/{c}/{r['patch']}", f"{d}/patch.diff")
    if os.path.isdir(f"{d}/demo"): shutil.rmtree(f"{d}/demo")
    shutil.copytree(f"{inc}/{c}/demo{n}", f"{d}/demo")
    meta=json.load(open(f"{inc}/{c}/meta{n}.json"))
    meta['property']=c
    rnd=(int(n)+1)//2
    meta['pair']=rnd  # 1st, 2nd or 3rd pair delivered for this property (DESIGN.md 17: rounds 1, 2|3, 4)
    meta['seeded_round']={1:'1',2:'1',3:'2|3',4:'2|3',5:'4',6:'4',7:'5',8:'6',9:'7',10:'8'}.get(int(n),'?')  # DESIGN.md 17.x
    meta['origin']="written by an independent sub-agent that saw only the property text and a private worktree" + ("" if rnd==1 else " (plus one-line summaries of the earlier changes for this property, so that it had to find another mechanism and code site)")
    meta['rebased']= r['patch'].endswith('rebased.diff')
    meta['confirmed']={'repo_head':head,'patch_applies':True,'demo_on_clean_tree_exit':int(r['demo_clean_rc']),'test_suite_with_patch':r['tests'],'demo_with_patch_exit':int(r['demo_patched_rc']),'how':'tools/verify_seeded.sh in a scratch worktree of /repo'}
    json.dump(meta,open(f"{d}/meta.json",'w'),indent=1)
    kept.append(sid)
print(len(kept),'kept')
