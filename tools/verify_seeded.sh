#!/bin/bash
# Confirms every seeded change in a scratch worktree of /repo (HEAD): demo passes on the clean tree, patch applies,
# the repository's test suite still passes with it, demo fails with it. Writes /verif/work/seeded_verify.tsv
set -u
WT=/tmp/sv_wt
OUT=/verif/work/seeded_verify.tsv
cd /repo && git worktree remove --force $WT 2>/dev/null; git worktree add --detach $WT HEAD >/dev/null 2>&1
: > $OUT
for d in ${SEEDED_DIRS:-/verif/seeded_incoming/C*/}; do
  c=$(basename $d)
  for n in ${NS:-1 2 3 4 5 6 7 8 9 10}; do
    p=$d/patch$n.diff; [ -f $d/patch$n.rebased.diff ] && p=$d/patch$n.rebased.diff
    [ -f $p ] || continue
    demo=$d/demo$n/run.sh
    git -C $WT checkout -q -- . ; git -C $WT clean -fdq -e target
    clean_rc=NA; patched_rc=NA; tests=NA; applies=yes
    if [ -f $demo ]; then timeout 900 bash $demo $WT >/tmp/sv_demo_clean.log 2>&1; clean_rc=$?; fi
    if ! git -C $WT apply $p 2>/dev/null; then applies=no; else
      (cd $WT && timeout 900 cargo nextest run --workspace --no-fail-fast --offline 2>&1 | grep -E "^\s+Summary" | tr -s ' ' > /tmp/sv_tests.log); tests=$(cat /tmp/sv_tests.log | sed 's/.*tests run: //')
      if [ -f $demo ]; then timeout 900 bash $demo $WT >/tmp/sv_demo_patched.log 2>&1; patched_rc=$?; fi
    fi
    echo -e "$c\t$n\t$(basename $p)\tapplies=$applies\tdemo_clean_rc=$clean_rc\ttests=$tests\tdemo_patched_rc=$patched_rc" | tee -a $OUT
  done
done
git -C /repo worktree remove --force $WT
