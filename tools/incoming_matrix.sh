#!/bin/bash
# usage: incoming_matrix.sh [tier] [ids...]  — runs the property's check against seeded_incoming patches (applied to /repo, reverted)
T=${1:-quick}; shift
OUT=/verif/work/incoming_matrix.tsv
for d in /verif/seeded_incoming/C*/; do
  c=$(basename $d)
  for n in ${NS:-1 2 3 4 5 6 7 8 9 10}; do
    id=$c-$n
    if [ $# -gt 0 ] && ! echo " $* " | grep -q " $id "; then continue; fi
    p=$d/patch$n.diff; [ -f $d/patch$n.rebased.diff ] && p=$d/patch$n.rebased.diff
    [ -f $p ] || continue
    cd /repo; git checkout -q -- .
    if ! git apply $p 2>/dev/null; then echo -e "$id\tNOAPPLY"; continue; fi
    cd /verif; ./check $c $T > work/im.$id.log 2>&1; rc=$?
    cd /repo; git checkout -q -- .
    nv=$(grep -c '^VIOLATION' /verif/work/im.$id.log)
    sigs=$(grep '^  sig=' /verif/work/im.$id.log | sed 's/  sig=//' | sort -u | head -3 | tr '\n' ' ')
    echo -e "$id\trc=$rc\tviol=$nv\t$sigs"
  done
done | tee $OUT
cd /repo; git checkout -q -- .
