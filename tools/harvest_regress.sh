#!/bin/bash
# After tools/incoming_matrix.sh: copies up to two shrunk killers (JSON replay files) per seeded change into
# replays/regress/<prop>/ so that every quick run replays them first. Only files that pass on the clean tree are kept.
cd /verif
for log in work/matrix.C*-*.log; do case "$log" in *matrix.C19-*) continue;; esac
  id=$(basename $log .log); id=${id#matrix.}; c=${id%-*}
  k=0
  grep '^VIOLATION' $log | sed 's/.*replay=//' | while read f; do
    case "$f" in *.json) ;; *) continue;; esac
    [ -f "$f" ] || continue
    k=$((k+1)); [ $k -le 1 ] || break
    mkdir -p replays/regress/$c
    cp "$f" replays/regress/$c/seeded-$id-$k.json
  done
done
# keep only those that are silent on the clean tree
git -C /repo diff --quiet || { echo "/repo has local changes"; exit 2; }
for f in replays/regress/C*/seeded-*.json; do
  c=$(basename $(dirname $f))
  if ! ./check $c --replay $f >/dev/null 2>&1; then echo "dropping $f (not silent on the clean tree)"; rm -f $f; fi
done
ls replays/regress/*/ | wc -l
