#!/bin/bash
# After tools/seeded_matrix.sh: copies the shrunk killer of every seeded change (seeded/<id>/killer.json, a JSON replay file)
# into replays/regress/<prop of the check that produced it>/ so that every quick run replays it first.
# Only files that are silent on the clean tree are kept. C19 killers are skipped (a replay costs a rustc run).
cd /verif
git -C /repo diff --quiet || { echo "/repo has local changes"; exit 2; }
for k in seeded/C*-*/killer.json; do
  id=$(basename $(dirname $k))
  c=$(python3 -c "import json;print(json.load(open('$k')).get('property',''))")
  [ -n "$c" ] || continue
  [ "$c" = "C19" ] && continue
  mkdir -p replays/regress/$c
  cp $k replays/regress/$c/seeded-$id.json
done
for f in replays/regress/C*/seeded-*.json; do
  c=$(basename $(dirname $f))
  if ! ./check $c --replay $f >/dev/null 2>&1; then echo "dropping $f (not silent on the clean tree)"; rm -f $f; fi
done
find replays/regress -name '*.json' | wc -l
