import json,sys
txt=sys.stdin.read()
i=txt.rfind('\nexec_error')
ex=''
if i>=0: ex=txt[i:]; txt=txt[:i]
if txt.startswith('REJECTED'): print(txt); sys.exit()
d=json.loads(txt)
print('pkg',d['package'],'imports',[(i['module'],i['names']) for i in d['imports']],'helpers',d['helper_defs'],d['helper_aliases'])
def ts(t):
    if t is None: return None
    if isinstance(t,str): return t
    k=list(t.keys())[0]; v=t[k]
    if k=='Name': return v['base']+('<'+','.join(ts(a) for a in v['args'])+'>' if v['args'] else '')
    if k in('Seq','Opt','Ptr','Nullable'): return k+'('+ts(v)+')'
    if k=='Map': return 'Map('+ts(v[0])+','+ts(v[1])+')'
    if k=='FixedSeq': return 'Fixed('+ts(v[0])+','+str(v[1])+')'
    return str(t)
for x in d['decls']:
    print(x['kind'],x['name'],x['generics'],'tgt',ts(x['target']),'tag',x['tag'],'content',x['content'],'facts',x['facts'],'refs',[(r,ts(t)) for r,t in x['refs']], x['const_value'], ts(x['const_ty']))
    for f in x['fields']: print('     f',f['ident'],'key',f['key'],f['bound'],f['opt'],ts(f['ty']))
    for c in x['cases']: print('     case',c['ident'],c['wire'],c['tag'],c['content'],ts(c['payload']),[f['ident'] for f in c['fields']],c['payload_optional'],'parent',ts(c['parent']),c['facts'])
print(ex)
