#!/bin/bash
# Runs the property's quick check against every kept seeded change (applied to /repo, reverted afterwards) and writes
# /verif/seeded/MATRIX.md and seeded/<id>/detected.txt
cd /verif
M=/verif/seeded/MATRIX.md
# ONLY="C05-8 C09-8": re-run just these changes and replace / append their rows in the existing table
if [ -n "${ONLY:-}" ]; then M=/verif/work/MATRIX.part.md; fi
echo "# Seeded changes x checks" > $M
echo >> $M
echo "Each change is applied to /repo (\`git apply\`), the property's quick check is run, the change is reverted (\`git checkout -- .\`)." >> $M
echo >> $M
echo "| id | what the change does | needs | check | result | signatures reported |" >> $M
echo "|---|---|---|---|---|---|" >> $M
for d in /verif/seeded/C*-*/; do
  id=$(basename $d); c=${id%-*}
  if [ -n "${ONLY:-}" ] && ! echo " $ONLY " | grep -q " $id "; then continue; fi
  cd /repo; git checkout -q -- .
  if ! git apply $d/patch.diff 2>/dev/null; then echo "| $id | (patch does not apply) | | | | |" >> $M; continue; fi
  # the property's own check first; seeded/<id>/also.txt may name sibling checks to try when it stays silent
  cd /verif; ./check $c quick > work/matrix.$id.log 2>&1; rc=$?; used="./check $c quick"
  if [ $rc -eq 0 ] && [ -f $d/also.txt ]; then
    for c2 in $(cat $d/also.txt); do
      ./check $c2 quick > work/matrix.$id.log 2>&1; rc=$?; used="./check $c quick (silent); ./check $c2 quick"
      [ $rc -ne 0 ] && break
    done
  fi
  # keep the first shrunk killer (a JSON replay file) next to the change: the found/ directory is wiped by the next run
  k=$(grep '^VIOLATION' /verif/work/matrix.$id.log | sed 's/.*replay=//' | grep '\.json$' | head -1)
  [ -n "$k" ] && [ -f "$k" ] && cp "$k" $d/killer.json
  cd /repo; git checkout -q -- .
  sigs=$(grep '^  sig=' /verif/work/matrix.$id.log | sed 's/  sig=//' | sort -u | head -6 | tr '\n' ';' | sed 's/;/; /g')
  grep '^  sig=' /verif/work/matrix.$id.log | sort -u > $d/detected.txt
  summary=$(python3 -c "import json;m=json.load(open('$d/meta.json'));print(m.get('summary','').replace('|','/')[:220])")
  needs=$(python3 -c "import json;m=json.load(open('$d/meta.json'));print(m.get('needs','').replace('|','/')[:200])")
  res=$([ $rc -eq 1 ] && echo "caught (exit 1)" || echo "MISSED (exit $rc)")
  echo "| $id | $summary | $needs | $used | $res | $sigs |" >> $M
  echo "$id rc=$rc"
done
cd /repo; git checkout -q -- .
if [ -n "${ONLY:-}" ]; then
  python3 - <<'PY'
import re
full='/verif/seeded/MATRIX.md'; part='/verif/work/MATRIX.part.md'
rows={}
head=[]
for l in open(full):
    m=re.match(r'\| (C\d\d-\d+) \|',l)
    if m: rows[m.group(1)]=l
    else: head.append(l)
for l in open(part):
    m=re.match(r'\| (C\d\d-\d+) \|',l)
    if m: rows[m.group(1)]=l
def key(i):
    a,b=i.split('-'); return (a,int(b))
open(full,'w').write(''.join(head)+''.join(rows[k] for k in sorted(rows,key=key)))
PY
fi
