#!/usr/bin/env python3
"""Turns collected signature lists (work/sigs.Cxx.txt) into `finding:` lines with a root-cause description."""
import re, sys, glob
DESC = [
 (r'^C02 python/.*/types-member-names-collide', "Python: members of the generated <Enum>Types class are named UPPER_SNAKE(wire name); two variants whose wire names differ only in case/separators collide on one member"),
 (r'^C03 scala/const/item-missing', "Scala back end never writes consts: an annotated const is silently omitted (exit 0, no error)"),
 (r'^C04 scala/.*bare-default/marker=missing', "Scala: a bare serde(default) on a non-Option field is printed as `T = _` instead of `Option[T] = None` (pinned by the repo's snapshot test_serde_default_struct)"),
 (r'^C05 scala/prim/capacity', "Scala: the unsigned aliases typeshare emits (UByte=Byte, UShort=Short, UInt=Int, ULong=Int) cannot hold every value of the Rust type (pinned by snapshots)"),
 (r'^C05 go/prim/category:char->rune', "Go: Rust char (a JSON string) is translated to rune (a JSON number) (pinned by snapshot test_generate_char)"),
 (r'^C09 .*generic-target/typeref/def=renamed,ref=original', "references to a serde-renamed *generic* type are never rewritten to the renamed name (reconcile only rewrites non-generic references), while the definition uses the renamed name"),
 (r'^C09 go/.*/typeref/def=original,ref=renamed', "Go defines enums / aliases / newtype structs under the original Rust name while references use the serde-renamed name"),
 (r'^C09 kotlin/.*/typeref/def=original,ref=renamed', "Kotlin defines non-inline type aliases under the original Rust name while references use the serde-renamed name"),
 (r'^C09 scala/.*/typeref/def=original,ref=renamed', "Scala defines type aliases under the original Rust name while references use the serde-renamed name"),
 (r'^C09 (kotlin|scala)/tagged-enum/variant-parent', "Kotlin/Scala: variants of a serde-renamed enum extend the parent under its original name while the parent is defined under the renamed name"),
 (r'^C09 (kotlin|scala)/variant-helper/payload', "Kotlin/Scala: the helper struct of a struct variant of a serde-renamed enum is defined as <Renamed><Variant>Inner but referenced as <Original><Variant>Inner"),
 (r'^C10 python/exec/TypeError:already-defined-as', "Python: two variants whose wire names differ only in case/separators produce the same <Enum>Types member, so the module does not import (same root cause as the C02 finding)"),
 (r'^C10 python/exec/TypeError:not-a-generic-class', "Python: a generic tagged enum is emitted as a plain Union alias; any reference with type arguments (E[T]) fails at import"),
 (r'^C10 python/py-syntax:keyword-as-tag-attribute', "Python: a serde tag key that is a Python keyword is emitted verbatim as an attribute name (SyntaxError)"),
 (r'^C10 python/py-syntax:keyword-as-attribute', "Python: a serde content key that is a Python keyword is emitted verbatim as an attribute name (SyntaxError)"),
 (r'^C10 swift/bare-keyword:ContainerCodingKeys-case', "Swift: tag/content keys that are Swift keywords are written unescaped as cases of ContainerCodingKeys"),
 (r'^C11 .*/dep-after-use/target-renamed', "ordering: dependencies are looked up by original name but references were already rewritten to the serde-renamed name, so an edge to a renamed type is invisible to the sorter"),
 (r'^C11 .*/dep-after-use/from-tagged-enum', "ordering: an algebraic enum lists itself as its first dependency and the cycle cut then skips its real dependencies; struct-variant fields are not followed at all"),
 (r'^C11 .*/dep-after-use/via-array-or-slice', "ordering: the dependency collector does not follow arrays and slices"),
 (r'^C11 .*/dep-after-use/via-container-inside-generic-arg', "ordering: inside generic arguments only the top-level name of each argument is looked up (containers / nested generics are not followed)"),
 (r'^C11 python/py-nameerror/generic-alias', "Python: a generic type alias is written as a subscript assignment `Name[T] = ..`, which raises NameError at import"),
 (r'^C11 python/py-nameerror/', "Python: the module does not import (NameError) because an eagerly evaluated alias/union refers to a type defined later - consequence of the ordering finding of the same class"),
 (r'^C12 python/name-not-imported-or-defined/TypeVar', "Python: generic type aliases use their type parameters without declaring a TypeVar (only structs and enums register them)"),
 (r'^C12 scala/unsigned-alias-undefined/only-deep', "Scala: the scan that decides whether to emit the UByte/UShort/UInt/ULong aliases is shallow (depth <= 1, not through arrays/slices, not const types)"),
 (r'^C15 (kotlin|swift|scala|go)/(escaped-comment|breaks-tokenisation)/newline', "a line break inside one doc string (block doc comments, #[doc]) is copied into a single `//`-style comment line, so the following lines become code"),
 (r'^C15 ts/(escaped-comment|breaks-tokenisation)/block-end', "TypeScript: `*/` inside doc text ends the generated block comment"),
 (r'^C15 python/breaks-tokenisation/triple-dquote', "Python: `\"\"\"` inside doc text ends the generated docstring"),
 (r'^C15 python/(escaped-comment|breaks-tokenisation)/newline', "Python: continuation lines of a multi-line doc string are not indented / not prefixed with `#`, leaving the docstring's block or the comment"),
 (r'^C15 python/.*backslash', "Python: a backslash at the end of doc text escapes the newline / quote that should end the docstring line"),
]
out=[]
for f in sorted(glob.glob('/verif/work/sigs.C*.txt')):
    prop=re.search(r'sigs\.(C\d+)\.txt',f).group(1)
    for line in open(f):
        m=re.match(r'\s*sig=(\S+) ::',line)
        if not m: continue
        sig=m.group(1)
        key=f"{prop} {sig}"
        desc=None
        for pat,d in DESC:
            if re.search(pat,key): desc=d; break
        if desc is None:
            print("NO DESCRIPTION FOR",key,file=sys.stderr); continue
        out.append(f"finding: property={prop} sig={sig} :: {desc}")
print("\n".join(out))
