#!/bin/bash
# usage: collect_sigs.sh <Cxx> <tier> <seed>...   — union of violation signatures over several seeds (one example each)
C=$1; T=$2; shift 2
cd /verif
for s in "$@"; do
  VERIF_SEED=$s ./check $C $T 2>&1 | grep -v '^proptest' | awk '/^  sig=/{sig=$0; getline; print sig " :: " $0}' 
done | sort | awk -F' :: ' '!seen[$1]++' | cut -c1-420
