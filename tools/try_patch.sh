#!/bin/bash
# usage: try_patch.sh <patch.diff> <Cxx> [tier]   — applies a seeded patch to /repo, runs the check, reverts
set -u
P=$1; C=$2; T=${3:-quick}
cd /repo
if ! git apply --check "$P" 2>/dev/null; then echo "PATCH DOES NOT APPLY: $P"; exit 3; fi
git apply "$P"
cd /verif && ./check $C $T > /verif/work/try_patch.$C.log 2>&1; rc=$?
cd /repo && git checkout -- . && git status --short | head -3
echo "rc=$rc  $(grep -c '^VIOLATION' /verif/work/try_patch.$C.log) violations  ($P)"
grep -A1 '^VIOLATION' /verif/work/try_patch.$C.log | grep 'sig=' | head -5
