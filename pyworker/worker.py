#!/usr/bin/env python3
"""Persistent helper: one JSON request per line on stdin, one JSON response per line on stdout.
ops:
  analyze {src}: CPython ast.parse + tokenize + exec against stub pydantic; returns structure facts
"""
import ast
import re, io, json, sys, tokenize, os, traceback

sys.path.insert(0, os.path.join(os.path.dirname(os.path.abspath(__file__)), "stubs"))


def ty(node):
    """annotation expression -> JSON tree"""
    if node is None:
        return None
    if isinstance(node, ast.Name):
        return {"k": "name", "id": node.id}
    if isinstance(node, ast.Attribute):
        b = ty(node.value)
        return {"k": "name", "id": (b.get("id", "?") if b else "?") + "." + node.attr}
    if isinstance(node, ast.Constant):
        if node.value is None:
            return {"k": "name", "id": "None"}
        if isinstance(node.value, str):
            # string annotation: parse it
            try:
                return ty(ast.parse(node.value, mode="eval").body)
            except SyntaxError:
                return {"k": "other", "src": repr(node.value)}
        return {"k": "other", "src": repr(node.value)}
    if isinstance(node, ast.Subscript):
        sl = node.slice
        if isinstance(sl, ast.Tuple):
            args = [ty(e) for e in sl.elts]
        else:
            args = [ty(sl)]
        return {"k": "sub", "base": ty(node.value), "args": args}
    if isinstance(node, ast.Call):
        return {"k": "call", "func": ty(node.func), "args": [ty(a) for a in node.args],
                "kw": {k.arg: ty(k.value) for k in node.keywords if k.arg}}
    if isinstance(node, ast.BinOp) and isinstance(node.op, ast.BitOr):
        return {"k": "union", "args": [ty(node.left), ty(node.right)]}
    return {"k": "other", "src": ast.dump(node)[:80]}


def names_in(node, strings_are_annotations=True):
    """Names an expression refers to. String constants inside ANNOTATIONS are forward references and are parsed too;
    in values (enum members such as "H-T-T-P-STATUS", aliases, defaults) a string is just a string."""
    out = []
    for n in ast.walk(node):
        if isinstance(n, ast.Name):
            out.append(n.id)
        elif strings_are_annotations and isinstance(n, ast.Constant) and isinstance(n.value, str):
            try:
                sub = ast.parse(n.value, mode="eval")
                out.extend(names_in(sub))
            except SyntaxError:
                pass
    return out


_UNIVERSAL = re.compile(r"[^\r\n]*(?:\r\n|\r|\n)|[^\r\n]+$")
_LF_ONLY = re.compile(r"[^\n]*\n|[^\n]+$")


def split_lines(src, universal):
    """Lines with their terminators. `universal`: the way CPython's parser counts lines for str input (LF, CRLF and a
    lone CR each end a line); otherwise the way io.StringIO.readline (and so the tokenize module) does: LF only.
    str.splitlines would also split at FF, VT, NEL, LS, PS ..., which neither of them does."""
    return (_UNIVERSAL if universal else _LF_ONLY).findall(src)


def line_offsets(lines):
    offs = [0]
    for line in lines:
        offs.append(offs[-1] + len(line))
    return offs


def to_off(offs, src_lines, line, col_bytes):
    # ast col offsets are utf8 byte offsets within the line; convert to char offset
    if line - 1 >= len(src_lines):
        return offs[-1]
    l = src_lines[line - 1]
    prefix = l.encode("utf8")[:col_bytes].decode("utf8", errors="ignore")
    return offs[line - 1] + len(prefix)


def value_src(src, node):
    try:
        return ast.get_source_segment(src, node)
    except Exception:
        return None


def analyze(src, do_exec=True):
    res = {"ok": True}
    try:
        tree = ast.parse(src)
    except SyntaxError as e:
        return {"ok": False, "syntax_error": {"msg": str(e.msg), "line": e.lineno or 0, "text": (e.text or "")[:120]}}
    except ValueError as e:
        return {"ok": False, "syntax_error": {"msg": "ValueError: " + str(e), "line": 0, "text": ""}}
    src_lines = split_lines(src, True)
    offs = line_offsets(src_lines)
    tok_offs = line_offsets(split_lines(src, False))
    # tokens: comment and string spans (char offsets); tokenize works on str input -> col = char index
    spans = []
    try:
        for tok in tokenize.generate_tokens(io.StringIO(src).readline):
            if tok.type in (tokenize.COMMENT, tokenize.STRING) or (hasattr(tokenize, "FSTRING_START") and tok.type in (getattr(tokenize, "FSTRING_START"), getattr(tokenize, "FSTRING_MIDDLE"), getattr(tokenize, "FSTRING_END"))):
                s = tok_offs[min(tok.start[0] - 1, len(tok_offs) - 1)] + tok.start[1]
                e = tok_offs[min(tok.end[0] - 1, len(tok_offs) - 1)] + tok.end[1]
                spans.append({"t": "comment" if tok.type == tokenize.COMMENT else "string", "s": s, "e": e})
    except (tokenize.TokenError, IndentationError) as e:
        res["tokenize_error"] = str(e)
    # docstring-like: expression statements that are a bare string constant
    docs = []
    for n in ast.walk(tree):
        if isinstance(n, ast.Expr) and isinstance(n.value, ast.Constant) and isinstance(n.value.value, str):
            s = to_off(offs, src_lines, n.value.lineno, n.value.col_offset)
            e = to_off(offs, src_lines, n.value.end_lineno, n.value.end_col_offset)
            docs.append({"s": s, "e": e, "line": n.lineno})
    res["spans"] = spans
    res["docstrings"] = docs
    imports, classes, assigns, funcs, other = [], [], [], [], []
    order = 0
    for node in tree.body:
        order += 1
        if isinstance(node, ast.ImportFrom):
            imports.append({"module": node.module or "", "names": [a.name for a in node.names], "line": node.lineno})
        elif isinstance(node, ast.Import):
            for a in node.names:
                imports.append({"module": a.name, "names": [], "line": node.lineno})
        elif isinstance(node, ast.ClassDef):
            c = {"name": node.name, "line": node.lineno, "order": order, "bases": [ty(b) for b in node.bases],
                 "base_names": sorted(set(sum([names_in(b) for b in node.bases], []))),
                 "fields": [], "members": [], "has_pass": False, "doc": None, "used_names": []}
            used = []
            for i, st in enumerate(node.body):
                if isinstance(st, ast.AnnAssign) and isinstance(st.target, ast.Name):
                    f = {"name": st.target.id, "ann": ty(st.annotation), "ann_src": value_src(src, st.annotation), "line": st.lineno,
                         "value": ty(st.value) if st.value is not None else None, "value_src": value_src(src, st.value) if st.value is not None else None}
                    used.extend(names_in(st.annotation))
                    if st.value is not None:
                        used.extend(names_in(st.value, False))
                    # Field(alias=..., default=...)
                    if isinstance(st.value, ast.Call) and isinstance(st.value.func, ast.Name) and st.value.func.id == "Field":
                        kw = {}
                        for k in st.value.keywords:
                            if k.arg and isinstance(k.value, ast.Constant):
                                kw[k.arg] = k.value.value if not (k.value.value is None) else "None"
                            elif k.arg:
                                kw[k.arg] = "<expr>"
                        f["field_kw"] = kw
                        f["field_kw_src"] = {k.arg: value_src(src, k.value) for k in st.value.keywords if k.arg}
                    c["fields"].append(f)
                elif isinstance(st, ast.Assign) and len(st.targets) == 1 and isinstance(st.targets[0], ast.Name):
                    m = {"name": st.targets[0].id, "line": st.lineno, "value_src": value_src(src, st.value)}
                    if isinstance(st.value, ast.Constant):
                        m["const"] = st.value.value
                    used.extend(names_in(st.value, False))
                    c["members"].append(m)
                elif isinstance(st, ast.Pass):
                    c["has_pass"] = True
                elif isinstance(st, ast.Expr) and isinstance(st.value, ast.Constant) and isinstance(st.value.value, str):
                    if i == 0:
                        c["doc"] = st.value.value
                else:
                    other.append({"line": st.lineno, "kind": type(st).__name__, "in": node.name})
            c["used_names"] = sorted(set(used))
            classes.append(c)
        elif isinstance(node, ast.Assign):
            tgt = node.targets[0]
            a = {"line": node.lineno, "order": order, "value": ty(node.value), "value_src": value_src(src, node.value),
                 "used_names": sorted(set(names_in(node.value)))}
            if isinstance(tgt, ast.Name):
                a["name"] = tgt.id
                a["target_kind"] = "name"
            elif isinstance(tgt, ast.Subscript) and isinstance(tgt.value, ast.Name):
                a["name"] = tgt.value.id
                a["target_kind"] = "subscript"
                a["used_names"] = sorted(set(a["used_names"] + names_in(tgt)))
            else:
                a["name"] = value_src(src, tgt)
                a["target_kind"] = "other"
            assigns.append(a)
        elif isinstance(node, ast.AnnAssign) and isinstance(node.target, ast.Name):
            assigns.append({"line": node.lineno, "order": order, "name": node.target.id, "target_kind": "annotated",
                            "ann": ty(node.annotation), "value": ty(node.value) if node.value is not None else None,
                            "value_src": value_src(src, node.value) if node.value is not None else None,
                            "used_names": sorted(set(names_in(node.annotation)))})
        elif isinstance(node, (ast.FunctionDef, ast.AsyncFunctionDef)):
            funcs.append({"name": node.name, "line": node.lineno,
                          "used_names": sorted({n.id for n in ast.walk(node) if isinstance(n, ast.Name)})})
        elif isinstance(node, ast.Expr) and isinstance(node.value, ast.Constant):
            pass
        else:
            other.append({"line": node.lineno, "kind": type(node).__name__, "in": None})
    res.update({"imports": imports, "classes": classes, "assigns": assigns, "funcs": funcs, "other": other})
    if do_exec:
        ns = {"__name__": "generated_module"}
        try:
            code = compile(tree, "<generated>", "exec")
            exec(code, ns)
            res["exec_error"] = None
        except BaseException as e:
            tb = traceback.extract_tb(e.__traceback__)
            line = 0
            for fr in tb:
                if fr.filename == "<generated>":
                    line = fr.lineno
            res["exec_error"] = {"type": type(e).__name__, "msg": str(e)[:200], "line": line,
                                 "name": getattr(e, "name", None)}
    return res


def main():
    for line in sys.stdin:
        line = line.strip()
        if not line:
            continue
        try:
            req = json.loads(line)
            if req.get("op") == "analyze":
                out = analyze(req["src"], req.get("exec", True))
            elif req.get("op") == "ping":
                out = {"ok": True, "version": sys.version}
            else:
                out = {"ok": False, "error": "unknown op"}
        except BaseException as e:  # never die on one bad request
            out = {"ok": False, "worker_error": repr(e)[:300]}
        sys.stdout.write(json.dumps(out) + "\n")
        sys.stdout.flush()


if __name__ == "__main__":
    main()
