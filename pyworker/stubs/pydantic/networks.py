class AnyUrl(str):
    pass
