"""Minimal stand-in for pydantic v2: just enough surface for typeshare's generated modules to import and execute.
It validates nothing; the checks only need class creation, Field(...) calls and annotation objects to succeed."""


class _FieldInfo:
    def __init__(self, *args, **kwargs):
        self.args = args
        self.kwargs = kwargs


def Field(*args, **kwargs):
    return _FieldInfo(*args, **kwargs)


def ConfigDict(**kwargs):
    return dict(kwargs)


class BaseModel:
    model_config = {}

    def __init__(self, **data):
        for k, v in data.items():
            setattr(self, k, v)

    def __class_getitem__(cls, item):
        return cls


class BeforeValidator:
    def __init__(self, func):
        self.func = func


class PlainSerializer:
    def __init__(self, func, **kwargs):
        self.func = func


class AfterValidator(BeforeValidator):
    pass
