/// This is a comment.
#[typeshare]
#[serde(rename_all = "camelCase")]
pub struct Things {
    pub bla: String,
    #[serde(rename = "label")]
    pub some_label: Option<String>,
    #[serde(rename = "label-left")]
    pub label_left: Option<String>,
}
