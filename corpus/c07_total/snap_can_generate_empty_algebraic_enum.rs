#[typeshare]
pub struct AddressDetails {}

#[typeshare]
#[serde(tag = "type", content = "content")]
pub enum Address {
    FixedAddress(AddressDetails),
    NoFixedAddress,
}
