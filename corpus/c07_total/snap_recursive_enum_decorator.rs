#[typeshare]
#[serde(tag = "type", content = "content", rename_all = "camelCase")]
pub enum Options {
    Red(bool),
    Banana(String),
    Vermont(Options),
}

#[typeshare]
#[serde(tag = "type", content = "content", rename_all = "camelCase")]
pub enum MoreOptions {
    News(bool),
    Exactly { config: String },
    Built { top: MoreOptions },
}
