#[typeshare(serialized_as = "String")]
pub struct ItemId {
    inner: i64,
}

/// Options that you could pick
#[typeshare(serialized_as = "String")]
pub enum Options {
    /// Affirmative Response
    Yes,
    No,
    Maybe,
    /// Sends a string along
    Cool(String),
}
