#[typeshare]
pub type OptionalU32 = Option<u32>;

#[typeshare]
pub struct OptionalU16(Option<u16>);

#[typeshare]
pub struct FooBar {
    foo: OptionalU32,
    bar: OptionalU16,
}
