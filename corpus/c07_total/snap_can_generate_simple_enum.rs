/// This is a comment.
/// Continued lovingly here
#[typeshare]
pub enum Colors {
    Red = 0,
    Blue = 1,
    /// Green is a cool color
    Green = 2,
}
