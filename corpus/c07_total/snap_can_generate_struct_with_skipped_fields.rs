#[typeshare]
pub struct MyStruct {
    a: i32,
    #[serde(skip)]
    b: i32,
    c: i32,
    #[typeshare(skip)]
    d: i32,
}
