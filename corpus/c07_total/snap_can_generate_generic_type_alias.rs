#[typeshare]
type GenericTypeAlias<T> = Vec<T>;

#[typeshare]
type NonGenericAlias = GenericTypeAlias<Option<String>>;
