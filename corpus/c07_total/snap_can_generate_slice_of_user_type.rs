#[typeshare]
#[derive(Serialize)]
pub struct Video<'a> {
    pub tags: &'a [Tag],
}
