#[typeshare]
pub struct BestHockeyTeams {
    PittsburghPenguins: u32,
    Lies: String,
}
#[typeshare(swift = "Equatable")]
pub struct BestHockeyTeams1 {
    PittsburghPenguins: u32,
    Lies: String,
}

#[typeshare(swift = "Equatable, Codable, Comparable, Hashable")]
pub struct BestHockeyTeams2 {
    PittsburghPenguins: u32,
    Lies: String,
}

#[typeshare(redacted)]
pub struct BestHockeyTeams3 {
    PittsburghPenguins: u32,
    Lies: String,
}

#[typeshare(swift = "Equatable", swift = "Hashable")]
pub struct BestHockeyTeams4 {
    PittsburghPenguins: u32,
    Lies: String,
}

#[typeshare(kotlin = "JvmInline", redacted)]
pub struct BestHockeyTeams5(String);
