#[typeshare]
#[derive(Serialize, Deserialize, Debug, PartialEq, Clone)]
#[serde(tag = "type", content = "content", rename_all = "camelCase")]
pub enum AnonymousStructWithRename {
    List {
        list: Vec<String>,
    },
    LongFieldNames {
        // Note that the `#[serde(rename_all)]` attribute applied to the overall enum
        // does not apply to these anonymous struct variant fields.
        //
        // These fields should rename in snake_case.
        some_long_field_name: String,
        and: bool,
        but_one_more: Vec<String>,
    },
    #[serde(rename_all = "kebab-case")]
    KebabCase {
        // Similar to the above, the `#[serde(rename_all)]` attribute applied to
        // this enum variant will apply, rather than the one applied to the overall
        // enum.
        anotherList: Vec<String>,
        // However, this even more specific `#[serde(rename)]` attribute should
        // cause this field to remain in camelCase.
        #[serde(rename = "camelCaseStringField")]
        camelCaseStringField: String,
        something_else: bool,
    },
}
