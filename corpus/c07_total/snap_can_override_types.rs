#[typeshare]
#[serde(rename_all = "camelCase")]
struct OverrideStruct {
    // These annotations are intentionally inconsistent across languages
    #[typeshare(
        swift(type = "Int"),
        typescript(readonly, type = "any | undefined"),
        kotlin(type = "Int"), go(type = "uint"),
        scala(type = "Short")
    )]
    field_to_override: String,
}

#[typeshare]
#[serde(tag = "type", content = "content")]
enum OverrideEnum {
    UnitVariant,
    TupleVariant(String),
    #[serde(rename_all = "camelCase")]
    AnonymousStructVariant {
        #[typeshare(
            swift(type = "Int"),
            typescript(readonly, type = "any | undefined"),
            kotlin(type = "Int"), go(type = "uint"),
            scala(type = "Short")
        )]
        field_to_override: String
    }
}