#[derive(Serialize, Deserialize, Debug)]
pub(super) struct Context {
    pub urls: Vec<EditItemContextUrl>,
    pub apps: Vec<ItemApp>,
}

#[typeshare]
#[derive(Serialize, Deserialize, Debug)]
pub struct EditItemViewModelSaveRequest {
    #[typeshare(serialized_as = "String")]
    pub(super) context: Context,

    pub values: Vec<EditItemSaveValue>,
    pub fill_action: Option<AutoFillItemActionRequest>,
}
