/// This is a comment.
#[typeshare]
pub enum Colors {
    #[serde(rename = "Green\"")]
    Green,
}
