#[typeshare]
pub struct MyEmptyStruct {}
