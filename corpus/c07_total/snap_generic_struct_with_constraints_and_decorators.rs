#[typeshare(
    swift = "Equatable, Identifiable",
    swiftGenericConstraints = "T: Equatable & SomeThingElse, V: Equatable"
)]
pub struct Button<T, V, I> {
    /// Label of the button
    pub label: I,
    /// Accessibility label if it needed to be different than label
    pub accessibility_label: Option<String>,
    /// Optional tooltips that provide extra explanation for a button
    pub tooltip: Option<String>,
    /// Button action if there one
    pub action: Option<T>,
    /// Icon if there is one
    pub icon: Option<V>,
    /// Button state
    pub state: ButtonState,
    /// Button Mode
    pub style: ButtonStyle,
}

#[typeshare]
pub struct ButtonState;

#[typeshare]
pub struct ButtonStyle;
