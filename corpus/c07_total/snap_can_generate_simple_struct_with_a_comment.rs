#[typeshare]
pub struct Location {}

/// This is a comment.
#[typeshare]
pub struct Person {
    /** This is another comment */
    pub name: String,
    pub age: u8,
    pub info: Option<String>,
    pub emails: Vec<String>,
    pub location: Location,
}
