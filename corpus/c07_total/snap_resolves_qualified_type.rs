#[typeshare]
struct QualifiedTypes {
    unqualified: String,
    qualified: std::string::String,
    qualified_vec: Vec<std::string::String>,
    qualified_hashmap: HashMap<std::string::String, std::string::String>,
    qualified_optional: Option<std::string::String>,
    qualfied_optional_hashmap_vec: Option<HashMap<std::string::String, Vec<std::string::String>>>
}