#[typeshare]
#[serde(rename_all = "camelCase")]
pub struct E {
    depends_on: D,
}

#[typeshare]
#[serde(rename_all = "camelCase")]
pub struct D {
    depends_on: C,
    also_depends_on: Option<E>,
}

#[typeshare]
#[serde(rename_all = "camelCase")]
pub struct C {
    depends_on: B
}

#[typeshare]
#[serde(rename_all = "camelCase")]
pub struct B {
    depends_on: A,
}

#[typeshare]
#[serde(rename_all = "camelCase")]
pub struct A {
    field: u32
}

