#[typeshare]
#[derive(Serialize, Debug)]
#[serde(tag = "type", content = "content")]
pub enum SomeEnum {
    /// The associated String contains some opaque context
    Context(#[typeshare(serialized_as = "String")] SomeOtherType),
    Other(i32),
}
