#[typeshare]
pub struct SomeStruct {
    field_a: Option<Option<u32>>,
}
