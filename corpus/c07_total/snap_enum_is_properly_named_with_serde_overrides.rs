/// This is a comment.
/// Continued lovingly here
#[typeshare]
#[serde(rename_all = "camelCase")]
pub enum Colors {
    Red = 0,
    Blue = 1,
    /// Green is a cool color
    #[serde(rename = "green-like")]
    Green = 2,
}
