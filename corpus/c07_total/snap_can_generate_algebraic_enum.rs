/// Struct comment
#[typeshare]
pub struct ItemDetailsFieldValue {}

/// Enum comment
#[typeshare]
#[serde(tag = "type", content = "content")]
pub enum AdvancedColors {
    /// This is a case comment
    String(String),
    Number(i32),
    UnsignedNumber(u32),
    NumberArray(Vec<i32>),
    /// Comment on the last element
    ReallyCoolType(ItemDetailsFieldValue),
}

#[typeshare]
#[serde(tag = "type", content = "content", rename_all = "kebab-case")]
pub enum AdvancedColors2 {
    /// This is a case comment
    String(String),
    Number(i32),
    NumberArray(Vec<i32>),
    /// Comment on the last element
    ReallyCoolType(ItemDetailsFieldValue),
}
