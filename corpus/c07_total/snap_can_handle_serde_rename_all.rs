/// This is a Person struct with camelCase rename
#[typeshare]
#[serde(default, rename_all = "camelCase")]
pub struct Person {
    pub first_name: String,
    pub last_name: String,
    pub age: u8,
    pub extra_special_field1: i32,
    pub extra_special_field2: Option<Vec<String>>,
}

/// This is a Person2 struct with UPPERCASE rename
#[typeshare]
#[serde(default, rename_all = "UPPERCASE")]
pub struct Person2 {
    pub first_name: String,
    pub last_name: String,
    pub age: u8,
}
