#[typeshare]
pub enum BestHockeyTeams {
    PittsburghPenguins,
}

#[typeshare(swift = "Equatable")]
pub enum BestHockeyTeams1 {
    PittsburghPenguins,
}

#[typeshare(swift = "Equatable, Comparable, Hashable")]
pub enum BestHockeyTeams2 {
    PittsburghPenguins,
}

#[typeshare(kotlin = "idk")]
pub enum BestHockeyTeams3 {
    PittsburghPenguins,
}
#[typeshare(swift = "Equatable", swift = "Hashable")]
pub enum BestHockeyTeams4 {
    PittsburghPenguins,
}
