#[typeshare]
#[serde(default, rename_all = "camelCase")]
pub struct Foo {
    pub a: I54,
    pub b: U53,
}
