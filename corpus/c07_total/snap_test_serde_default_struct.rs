#[typeshare]
#[serde(rename_all = "camelCase")]
pub struct Foo {
    #[serde(default)]
    pub bar: bool,
}
