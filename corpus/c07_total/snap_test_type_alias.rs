#[typeshare]
pub struct Bar(String);

#[typeshare]
pub struct Foo {
    bar: Bar,
}
