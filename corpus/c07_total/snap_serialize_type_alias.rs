#[typeshare]
type AlsoString = String;

#[typeshare(serialized_as = "String")]
struct Uuid(String);

#[typeshare]
/// Unique identifier for an Account
type AccountUuid = Uuid;

#[typeshare(serialized_as = "String")]
type ItemUuid = Uuid;
