#[typeshare]
#[serde(tag = "type", content = "content")]
pub enum GenericEnum<A, B> {
    VariantA(A),
    VariantB(B),
}

#[typeshare]
pub struct StructUsingGenericEnum {
    enum_field: GenericEnum<String, i16>,
}

#[typeshare]
#[serde(tag = "type", content = "content")]
pub enum GenericEnumUsingGenericEnum<T> {
    VariantC(GenericEnum<T, T>),
    VariantD(GenericEnum<&'static str, std::collections::HashMap<String, T>>),
    VariantE(GenericEnum<&'static str, u32>),
}

#[typeshare]
#[serde(tag = "type", content = "content")]
pub enum GenericEnumsUsingStructVariants<T, U> {
    VariantF { action: T },
    VariantG { action: T, response: U },
    VariantH { non_generic: i32 },
    VariantI { vec: Vec<T>, action: MyType<T, U> },
}
