#[typeshare]
#[serde(tag = "type", content = "content")]
pub enum BestHockeyTeams {
    PittsburghPenguins,
    Lies(String),
}
#[typeshare(swift = "Equatable")]
#[serde(tag = "type", content = "content")]
pub enum BestHockeyTeams1 {
    PittsburghPenguins,
    Lies(String),
}

#[typeshare(swift = "Equatable, Codable, Comparable, Hashable")]
#[serde(tag = "type", content = "content")]
pub enum BestHockeyTeams2 {
    PittsburghPenguins,
    Lies(String),
}

#[typeshare(kotlin = "idk")]
#[serde(tag = "type", content = "content")]
pub enum BestHockeyTeams3 {
    PittsburghPenguins,
    Lies(String),
}

#[typeshare(swift = "Equatable", swift = "Hashable")]
#[serde(tag = "type", content = "content")]
pub enum BestHockeyTeams4 {
    PittsburghPenguins,
    Lies(String),
}
