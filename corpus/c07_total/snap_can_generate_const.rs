#[typeshare]
pub const MY_VAR: u32 = 12;
