/// Enum keeping track of who autofilled a field
#[typeshare]
#[serde(tag = "type", content = "content")]
pub enum AutofilledBy {
    /// This field was autofilled by us
    Us {
        /// The UUID for the fill
        uuid: String,
    },
    /// Something else autofilled this field
    SomethingElse {
        /// The UUID for the fill
        uuid: String,
        /// Some other thing
        #[typeshare(skip)]
        thing: i32,
    },
}
