/// This is a comment.
#[typeshare]
pub struct Foo {
    pub a: i8,
    pub b: i16,
    pub c: i32,
    pub e: u8,
    pub f: u16,
    pub g: u32,
}
