#[typeshare(swift = "Equatable")]
struct EmptyType {}