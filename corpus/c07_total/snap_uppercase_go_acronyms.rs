#[typeshare]
pub struct AccountId(String);

#[typeshare]
pub struct Foo {
    pub id: String,
    pub id_with_suffix: String,
    pub prefix_with_id: String,
    pub identity: String,
    pub lowercase_input_url: String,
    pub uppercase_type: AccountId,
}

#[typeshare]
#[serde(tag = "type", content = "content")]
pub enum Bar {
    Id(String),
}
