#[typeshare]
pub struct SomeStruct {
    #[typeshare(typescript(readonly))]
    field_a: u32,
}
