#[typeshare]
pub struct GenericStruct<A, B> {
    field_a: A,
    field_b: Vec<B>
}

#[typeshare]
#[serde(tag = "type", content = "content")]
pub enum EnumUsingGenericStruct{
    VariantA(GenericStruct<String, f32>),
    VariantB(GenericStruct<&'static str, i32>),
    VariantC(GenericStruct<&'static str, bool>),
    VariantD(GenericStructUsingGenericStruct<()>)
}

#[typeshare]
pub struct GenericStructUsingGenericStruct<T> {
    struct_field: GenericStruct<String, T>,
    second_struct_field: GenericStruct<T, String>,
    third_struct_field: GenericStruct<T, Vec<T>>
}


