#[typeshare]
struct GenericType<K, V> {
    key: K,
    value: V
}

#[typeshare]
#[serde(tag = "type", content = "content")]
enum GenericEnum<K, V> {
    Variant {
        key: K,
        value: V
    }
}