#![cfg(feature = "online")]
#![allow(dead_code)]

use std::collection::HashMap;

#[typeshare]
#[serde(tag = "type", content = "content")]
pub enum TestEnum {
    Variant1,
    #[cfg(target_os = "ios")]
    Variant2,
    #[cfg(any(target_os = "ios", feature = "test"))]
    Variant3,
    #[cfg(all(target_os = "ios", feature = "test"))]
    Variant4,
    #[cfg(target_os = "android")]
    Variant5,
    #[cfg(target_os = "macos")]
    Variant7 {
        field1: String,
    },
    #[cfg(any(target_os = "android", target_os = "ios"))]
    Variant8,
    Variant9 {
        #[cfg(not(target_os = "macos"))]
        field1: String,
        field2: String,
    },
}

#[typeshare]
#[cfg(target_os = "ios")]
pub struct TestStruct;

#[typeshare]
#[cfg(target_os = "ios")]
type TypeAlias = String;

#[typeshare]
#[cfg(any(target_os = "ios", feature = "test"))]
pub enum Test {}

#[typeshare]
#[cfg(feature = "super")]
#[cfg(target_os = "android")]
pub enum SomeEnum {}

#[typeshare]
#[cfg(any(target_os = "ios", target_os = "android"))]
pub struct ManyStruct;

#[typeshare]
#[cfg(any(target_os = "android", target_os = "ios"))]
pub struct MultipleTargets;

#[typeshare]
#[cfg(not(any(target_os = "android", target_os = "ios")))]
pub struct DefinedTwice {
    field1: u64,
}

#[typeshare]
#[cfg(any(target_os = "android", target_os = "ios"))]
pub struct DefinedTwice {
    field1: String,
}

#[typeshare]
#[cfg(not(any(target_os = "wasm32", target_os = "ios")))]
pub struct Excluded;

#[typeshare]
#[cfg(not(target_os = "wasm32"))]
pub struct OtherExcluded;

#[typeshare]
#[cfg(not(target_os = "android"))]
pub struct AndroidExcluded;

#[typeshare]
#[cfg(all(feature = "my-feature", not(target_os = "ios")))]
pub struct NestedNotTarget1;

/// A struct with no target_os. Should be generated when
/// we use --target-os.
#[typeshare]
pub struct AlwaysAccept;

#[typeshare]
pub enum AlwaysAcceptEnum {
    Variant1,
    Variant2,
}
