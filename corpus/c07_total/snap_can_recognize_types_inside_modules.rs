mod a {
    #[typeshare]
    pub struct A {
        field: u32
    }
    mod b {
        mod c {
            #[typeshare]
            pub struct ABC {
                field: u32
            }
        }
        #[typeshare]
        pub struct AB {
            field: u32
        }
    }
}

#[typeshare]
pub struct OutsideOfModules {
    field: u32
}