#[typeshare]
pub struct catch {
    pub default: String,
    pub case: String,
}

#[typeshare]
pub enum throws {
    case,
    default,
}

#[typeshare]
#[serde(tag = "type", content = "content")]
pub enum switch {
    default(catch),
}
