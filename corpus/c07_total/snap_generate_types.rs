#[typeshare]
pub struct CustomType {}

#[typeshare]
pub struct Types {
    pub s: String,
    pub static_s: &'static str,
    pub int8: i8,
    pub float: f32,
    pub double: f64,
    pub array: Vec<String>,
    pub fixed_length_array: [String; 4],
    pub dictionary: HashMap<String, i32>,
    pub optional_dictionary: Option<HashMap<String, i32>>,
    pub custom_type: CustomType,
}
