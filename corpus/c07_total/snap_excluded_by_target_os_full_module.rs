#![cfg(feature = "online")]
#![allow(dead_code)]
#![cfg(any(target_os = "android", feature = "testing"))]
#![cfg(target_os = "wasm32")]

#[typeshare]
pub struct IgnoredUnlessAndroid;
