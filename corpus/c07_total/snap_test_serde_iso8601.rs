#[typeshare]
#[serde(rename_all = "camelCase")]
pub struct Foo {
    pub time: DateTime<Utc>,
}
