#[typeshare]
pub struct ItemDetailsFieldValue {
    hello: String,
}

#[typeshare]
#[serde(tag = "t", content = "c")]
pub enum AdvancedColors {
    String(String),
    Number(i32),
    NumberArray(Vec<i32>),
    ReallyCoolType(ItemDetailsFieldValue),
    ArrayReallyCoolType(Vec<ItemDetailsFieldValue>),
    DictionaryReallyCoolType(HashMap<String, ItemDetailsFieldValue>),
}
