#[typeshare]
#[serde(rename_all = "camelCase")]
pub struct Foo {
    pub time: time::OffsetDateTime,
    pub time2: time::OffsetDateTime,
    pub time3: time::OffsetDateTime,
    pub bytes: Vec<u8>,
    pub bytes2: Vec<u8>
}

#[typeshare]
#[serde(rename_all = "camelCase")]
pub struct TwoFoo {
    pub time: time::OffsetDateTime,
    pub bytes: Vec<u8>,
}
