// This test verifies that unit structs created without bracket syntax can still be generated.

#[typeshare]
struct UnitStruct;