/// This is a comment.
#[typeshare]
#[serde(rename_all = "camelCase")]
pub enum Colors {
    Red,
    #[serde(rename = "blue-ish")]
    Blue,
    #[serde(rename = "Green")]
    Green,
}
