#[typeshare]
pub struct OtherType {}

/// This is a comment.
#[typeshare]
pub struct Person {
    pub name: String,
    pub age: u8,
    #[serde(rename = "extraSpecialFieldOne")]
    pub extra_special_field1: i32,
    #[serde(rename = "extraSpecialFieldTwo")]
    pub extra_special_field2: Option<Vec<String>>,
    #[serde(rename = "nonStandardDataType")]
    pub non_standard_data_type: OtherType,
    #[serde(rename = "nonStandardDataTypeInArray")]
    pub non_standard_data_type_in_array: Option<Vec<OtherType>>,
}
