/// This is a comment.
#[typeshare]
#[serde(tag = "type", content = "content")]
pub enum BoxyColors {
    Red,
    Blue,
    Green(Box<String>),
}

/// This is a comment.
#[typeshare]
#[serde(tag = "type", content = "content")]
pub struct ArcyColors {
    pub red: Weak<u8>,
    pub blue: ArcWeak<String>,
    pub green: Arc<Vec<String>>,
}

/// This is a comment.
#[typeshare]
#[serde(tag = "type", content = "content")]
pub struct MutexyColors {
    pub blue: Mutex<Vec<String>>,
    pub green: Mutex<String>,
}

/// This is a comment.
#[typeshare]
#[serde(tag = "type", content = "content")]
pub struct RcyColors {
    pub red: RcWeak<String>,
    pub blue: Rc<Vec<String>>,
    pub green: Rc<String>,
}

/// This is a comment.
#[typeshare]
#[serde(tag = "type", content = "content")]
pub struct CellyColors {
    pub red: Cell<String>,
    pub blue: RefCell<Vec<String>>,
}

/// This is a comment.
#[typeshare]
#[serde(tag = "type", content = "content")]
pub struct LockyColors {
    pub red: RwLock<String>,
}

/// This is a comment.
#[typeshare]
#[serde(tag = "type", content = "content")]
pub struct CowyColors<'a> {
    pub lifetime: Cow<'a, str>,
}
