#[typeshare]
#[serde(rename_all = "camelCase")]
pub struct Foo {
    pub url: url::Url,
}
