#[typeshare]
struct MyType {
    field: char,
}
