/// This is a comment.
#[typeshare]
pub enum Colors {
    Red,
    Blue,
    Green,
}
