//! Test references to a type that has been renamed via serde(rename)
//!

#[derive(Serialize)]
#[serde(rename = "SomethingFoo")]
#[typeshare]
pub enum Foo {
    A,
}

#[derive(Serialize)]
#[typeshare]
#[serde(tag = "type", content = "value")]
pub enum Parent {
    B(Foo),
}

#[derive(Serialize)]
#[typeshare]
pub struct Test {
    field1: Foo,
    field2: Option<Foo>,
}

#[derive(Serialize)]
#[typeshare]
pub type AliasTest = Vec<Foo>;
