/// This struct has a unit field
#[typeshare]
#[serde(default, rename_all = "camelCase")]
struct StructHasVoidType {
    this_is_a_unit: (),
}

/// This enum has a variant associated with unit data
#[typeshare]
#[serde(default, rename_all = "camelCase", tag = "type", content = "content")]
enum EnumHasVoidType {
    HasAUnit(()),
}
