#[typeshare]
pub struct ItemDetailsFieldValue {}

#[typeshare]
#[serde(rename_all = "camelCase", tag = "type", content = "content")]
pub enum AdvancedColors {
    String(String),
    Number(i32),
    #[serde(rename = "number-array")]
    NumberArray(Vec<i32>),
    #[serde(rename = "reallyCoolType")]
    ReallyCoolType(ItemDetailsFieldValue),
}
