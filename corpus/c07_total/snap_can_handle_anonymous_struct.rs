/// Enum keeping track of who autofilled a field
#[typeshare]
#[serde(tag = "type", content = "content")]
pub enum AutofilledBy {
    /// This field was autofilled by us
    Us {
        /// The UUID for the fill
        uuid: String,
    },
    /// Something else autofilled this field
    SomethingElse {
        /// The UUID for the fill
        uuid: String,
        /// Some other thing
        thing: i32,
    },
}

/// This is a comment (yareek sameek wuz here)
#[typeshare]
#[serde(tag = "type", content = "content")]
pub enum EnumWithManyVariants {
    UnitVariant,
    TupleVariantString(String),
    AnonVariant { uuid: String },
    TupleVariantInt(i32),
    AnotherUnitVariant,
    AnotherAnonVariant { uuid: String, thing: i32 },
}
