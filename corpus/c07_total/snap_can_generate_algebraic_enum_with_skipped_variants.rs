#[typeshare]
#[serde(tag = "type", content = "content")]
pub enum SomeEnum {
    A,
    #[typeshare(skip)]
    B,
    C(i32),
    #[typeshare(skip, asdf)]
    D(u32),
    #[serde(skip)]
    E,
}
