#[typeshare]
pub struct MyEmptyStruct {}
