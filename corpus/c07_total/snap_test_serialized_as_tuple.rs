#[typeshare(serialized_as = "String")]
pub struct ItemId(i64);
